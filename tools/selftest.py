#!/venv/bin/python
"""Self-tests of the machinery (not part of the registered checks).

  selftest.py determinism [--n 300] [--props C01,C02,...]
      every scenario index is executed twice in this process and once in a
      fresh interpreter under another PYTHONHASHSEED; the SHA-256 of the
      full traces must agree.

  selftest.py mutants [--only id,id] [--budget 25] [--jobs 4]
      applies each entry of tools/mutants.py (and each 'revert a fix' mutant) to
      a scratch copy of /repo under /tmp, runs the quick check of the property
      it breaks with STREAMZ_SRC pointing at the copy, and reports whether and
      how fast the check raised a VIOLATION.  Scratch copies are removed.
"""
import argparse
import concurrent.futures as cf
import hashlib
import json
import os
import shutil
import subprocess
import sys
import tempfile
import time

HERE = os.path.dirname(os.path.dirname(os.path.abspath(__file__)))
sys.path.insert(0, HERE)
ALL = ['C01', 'C02', 'C03', 'C04', 'C05', 'C08', 'C09', 'C10', 'C12', 'C13', 'C14', 'C15', 'C16', 'C17', 'C18', 'C19', 'C20']


def digests(props, n, seed):
    sys.path.insert(0, os.environ.get('STREAMZ_SRC', '/repo'))
    from simz.runner import family_of, rng_for
    out = {}
    for prop in props:
        fam = family_of(prop)
        for i in range(n):
            sc = fam.generate(prop, rng_for(seed, prop, i), seed, i, 'quick')
            o = fam.evaluate(prop, sc, want_trace=True)
            ev = getattr(getattr(o, 'res', None), 'events', None)
            h = hashlib.sha256()
            h.update(json.dumps(sc, sort_keys=True, default=str).encode())
            if ev is not None:
                for e in ev:
                    h.update(repr(e).encode())
            h.update(repr([(v.oracle, v.seq) for v in o.violations]).encode())
            h.update(repr(sorted(o.probes.items())).encode())
            out['%s:%d' % (prop, i)] = h.hexdigest()
    return out


def cmd_determinism(a):
    props = a.props.split(',') if a.props else ALL
    if a.child:
        print(json.dumps(digests(props, a.n, a.seed)))
        return 0
    t0 = time.time()
    d1 = digests(props, a.n, a.seed)
    d2 = digests(props, a.n, a.seed)
    bad = [k for k in d1 if d1[k] != d2[k]]
    print('in-process twice: %d scenarios, %d differ' % (len(d1), len(bad)))
    allbad = set(bad)
    for hs in ('1', '12345'):
        env = dict(os.environ, PYTHONHASHSEED=hs)
        r = subprocess.run([sys.executable, os.path.abspath(__file__), 'determinism', '--child', '--n', str(a.n),
                            '--seed', str(a.seed), '--props', ','.join(props)], capture_output=True, text=True, env=env, timeout=3600)
        if r.returncode != 0:
            print('child failed', r.stderr[-2000:])
            return 2
        d3 = json.loads(r.stdout.strip().splitlines()[-1])
        bad3 = [k for k in d1 if d1[k] != d3.get(k)]
        print('fresh interpreter PYTHONHASHSEED=%s: %d differ %s' % (hs, len(bad3), bad3[:5]))
        allbad.update(bad3)
    print('determinism: %s (%.0fs)' % ('OK' if not allbad else 'FAILED %r' % sorted(allbad)[:10], time.time() - t0))
    return 1 if allbad else 0


def fix_commits():
    r = subprocess.run(['git', '-C', '/repo', 'log', '--format=%H %s'], capture_output=True, text=True)
    out = []
    for line in r.stdout.splitlines():
        h, s = line.split(' ', 1)
        if s.startswith('fix:'):
            out.append((h, s))
    return out


REVERT_PROPS = {
    'slice follows list slicing': ['C01'], 'slice hands downstream awaitables': ['C03'],
    'timed_window shares a future': ['C02', 'C03'], 'map_async inserts jobs in arrival order': ['C02'],
    'partition_unique emits a flat metadata list': ['C10'], 'latest delivers the newest': ['C14'],
    'partition_unique and timed_window_unique release': ['C05'], 'map_async holds an element': ['C04', 'C05'],
    'sink holds the element': ['C04', 'C09'], 'rate_limit holds the elements': ['C04'],
    'zip_latest returns a flat list': ['C03', 'C02'], 'a source runs at most one polling loop': ['C18'],
    'from_iterable does not take an item after stop': ['C18'], 'Kafka auto.offset.reset=latest': ['C09'],
    'Kafka partitions found by refresh_partitions': ['C09'], 'combine_latest can drop an input': ['C15'],
    'zip keeps emitting after an input': ['C15'], 'a node or source declared asynchronous': ['C19'],
    'Dask gather emits results in arrival order': ['C20'],
    'Dask scatter emits elements in arrival order': ['C20'],
    'a node joining a bound pipeline binds': ['C19', 'C03'],
    'a node joining an asynchronous pipeline passes the mode': ['C19', 'C03'],
    'concurrent blocking emits do not trip': ['C03', 'C16'],
    'rate_limit keeps arrival order and spacing': ['C13', 'C02'],
    'slice stays within its end': ['C01'],
    "collect.flush hands its consumers' awaitables": ['C02'],
    'map_async runs one worker at a time': ['C02'],
    'map_async.stop() on a node that is not running': ['C02'],
    'from_textfile decodes incrementally': ['C17'],
}


def run_one(job):
    kind, ident, props, payload, budget = job
    tmp = tempfile.mkdtemp(prefix='sz_mut_', dir='/tmp')
    try:
        shutil.copytree('/repo/streamz', os.path.join(tmp, 'streamz'), ignore=shutil.ignore_patterns('__pycache__'))
        if kind == 'text':
            path = os.path.join(tmp, payload['file'])
            s = open(path).read()
            if payload['old'] is None or s.count(payload['old']) != 1:
                return (ident, props, 'NOT-APPLICABLE (pattern occurs %s times)' % (s.count(payload['old']) if payload['old'] else 'n/a'), 0, [])
            open(path, 'w').write(s.replace(payload['old'], payload['new']))
        else:
            d = subprocess.run(['git', '-C', '/repo', 'show', payload], capture_output=True, text=True).stdout
            r = subprocess.run(['patch', '-R', '-p1', '-d', tmp], input=d, capture_output=True, text=True)
            if r.returncode != 0:
                return (ident, props, 'NOT-APPLICABLE (reverse patch failed)', 0, [])
        c = subprocess.run([sys.executable, '-c', 'import sys; sys.path.insert(0, %r); import streamz, streamz.dask, streamz.dataframe' % tmp],
                           capture_output=True, text=True)
        if c.returncode != 0:
            return (ident, props, 'BROKEN (does not import): ' + c.stderr[-200:], 0, [])
        res = []
        for prop in props:
            t0 = time.time()
            env = dict(os.environ, STREAMZ_SRC=tmp, PYTHONHASHSEED='0', SIMZ_NO_EVIDENCE='1')
            r = subprocess.run([sys.executable, os.path.join(HERE, 'check.py'), prop, '--tier', 'quick', '--budget', str(budget),
                                '--workers', '4', '--no-evidence'], capture_output=True, text=True, env=env, timeout=900, cwd=HERE)
            lines = [ln for ln in r.stdout.splitlines() if ln.startswith('VIOLATION') or ln.startswith('  oracle=')]
            res.append((prop, r.returncode, round(time.time() - t0, 1), lines[:2], r.stdout[-300:] if r.returncode not in (0, 1) else ''))
        caught = any(rc == 1 for _, rc, _, _, _ in res)
        return (ident, props, 'CAUGHT' if caught else 'MISSED', res[0][2], res)
    finally:
        shutil.rmtree(tmp, ignore_errors=True)


def run_benign(job):
    bb, budget = job
    tmp = tempfile.mkdtemp(prefix='sz_ben_', dir='/tmp')
    try:
        shutil.copytree('/repo/streamz', os.path.join(tmp, 'streamz'), ignore=shutil.ignore_patterns('__pycache__'))
        path = os.path.join(tmp, bb['file'])
        s = open(path).read()
        applied = 0
        for old, new in bb['pairs']:
            if old in s:
                s = s.replace(old, new)
                applied += 1
        if applied == 0:
            return (bb['id'], 'NOT-APPLICABLE', [])
        open(path, 'w').write(s)
        c = subprocess.run([sys.executable, '-c', 'import sys; sys.path.insert(0, %r); import streamz, streamz.dask, streamz.dataframe' % tmp],
                           capture_output=True, text=True)
        if c.returncode != 0:
            return (bb['id'], 'BROKEN: ' + c.stderr[-300:], [])
        res = []
        for prop in bb['props']:
            env = dict(os.environ, STREAMZ_SRC=tmp, PYTHONHASHSEED='0')
            r = subprocess.run([sys.executable, os.path.join(HERE, 'check.py'), prop, '--tier', 'quick', '--budget', str(budget),
                                '--workers', '4', '--no-evidence'], capture_output=True, text=True, env=env, timeout=900, cwd=HERE)
            lines = [ln for ln in r.stdout.splitlines() if ln.startswith('  oracle=') or ln.startswith('HARNESS')]
            res.append((prop, r.returncode, lines[:1]))
        ok = all(rc == 0 for _, rc, _ in res)
        return (bb['id'], 'GREEN' if ok else 'ALARM', res)
    finally:
        shutil.rmtree(tmp, ignore_errors=True)


def cmd_benign(a):
    sys.path.insert(0, os.path.join(HERE, 'tools'))
    import benign
    only = set(a.only.split(',')) if a.only else None
    jobs = [(bb, a.budget) for bb in benign.B if not only or bb['id'] in only]
    bad = []
    with cf.ThreadPoolExecutor(max_workers=a.jobs) as ex:
        for ident, verdict, res in ex.map(run_benign, jobs):
            print('%-32s %-14s %s' % (ident, verdict, ' | '.join('%s rc=%s %s' % (p, rc, (ls[0][:140] if ls else '')) for p, rc, ls in res)), flush=True)
            if verdict == 'ALARM':
                bad.append(ident)
    print('benign refactorings: %d alarms %r' % (len(bad), bad))
    return 1 if bad else 0


def cmd_mutants(a):
    sys.path.insert(0, os.path.join(HERE, 'tools'))
    import mutants
    jobs = []
    only = set(a.only.split(',')) if a.only else None
    for mm in mutants.M:
        if only and mm['id'] not in only:
            continue
        jobs.append(('text', mm['id'], mm['props'][:1] if not a.all_props else mm['props'], mm, a.budget))
    if not a.no_reverts:
        for h, s in fix_commits():
            key = next((k for k in REVERT_PROPS if k in s), None)
            ident = 'revert:' + s[5:45]
            if only and ident not in only and 'reverts' not in only:
                continue
            if key is None:
                continue
            jobs.append(('revert', ident, REVERT_PROPS[key][:1] if not a.all_props else REVERT_PROPS[key], h, a.budget))
    t0 = time.time()
    rows = []
    with cf.ThreadPoolExecutor(max_workers=a.jobs) as ex:
        for row in ex.map(run_one, jobs):
            rows.append(row)
            ident, props, verdict, secs, res = row
            extra = ''
            if res:
                extra = ' | '.join('%s rc=%s %ss %s' % (p, rc, t, (ls[1][9:120] if len(ls) > 1 else '') or err[-150:]) for p, rc, t, ls, err in res)
            print('%-45s %-10s %s  %s' % (ident, ','.join(props), verdict, extra), flush=True)
    caught = sum(1 for r in rows if r[2] == 'CAUGHT')
    missed = [r[0] for r in rows if r[2] == 'MISSED']
    other = [r[0] for r in rows if r[2] not in ('CAUGHT', 'MISSED')]
    print('mutants: %d caught, %d missed %r, %d not run %r  (%.0fs)' % (caught, len(missed), missed, len(other), other, time.time() - t0))
    with open(os.path.join(HERE, 'notes', 'mutants-last-run.json'), 'w') as f:
        json.dump([{'id': r[0], 'props': r[1], 'verdict': r[2], 'runs': [list(x[:4]) for x in r[4]]} for r in rows], f, indent=1)
    return 0 if not missed else 1


def main():
    ap = argparse.ArgumentParser()
    sub = ap.add_subparsers(dest='cmd')
    d = sub.add_parser('determinism')
    d.add_argument('--n', type=int, default=150)
    d.add_argument('--seed', type=int, default=7)
    d.add_argument('--props')
    d.add_argument('--child', action='store_true')
    mu = sub.add_parser('mutants')
    mu.add_argument('--only')
    mu.add_argument('--budget', type=float, default=20)
    mu.add_argument('--jobs', type=int, default=4)
    mu.add_argument('--all-props', action='store_true')
    mu.add_argument('--no-reverts', action='store_true')
    be = sub.add_parser('benign')
    be.add_argument('--only')
    be.add_argument('--budget', type=float, default=12)
    be.add_argument('--jobs', type=int, default=4)
    a = ap.parse_args()
    if a.cmd == 'benign':
        return cmd_benign(a)
    if a.cmd == 'determinism':
        return cmd_determinism(a)
    if a.cmd == 'mutants':
        return cmd_mutants(a)
    ap.print_help()
    return 2


if __name__ == '__main__':
    sys.exit(main())
