#!/bin/bash
# soak: many seeds x all properties on a snapshot of /repo; prints only runs that did not exit 0
# usage: tools/soak.sh <first-seed> <n-seeds> <tier> <budget-seconds>
SRC=${VP_RUN_REPO:-/repo}
export STREAMZ_SRC=$SRC
first=${1:-100}; n=${2:-10}; tier=${3:-quick}; budget=${4:-40}
for ((s=first; s<first+n; s++)); do
  for p in C01 C02 C03 C04 C05 C08 C09 C10 C12 C13 C14 C15 C16 C17 C18 C19 C20; do
    out=$(timeout 3000 /venv/bin/python check.py $p --tier $tier --seed $s --budget $budget --no-evidence 2>&1)
    rc=$?
    if [ $rc -ne 0 ]; then
      echo "### seed=$s prop=$p rc=$rc"
      echo "$out" | grep -E "VIOLATION|oracle=|HARNESS|Error" | head -8 | cut -c1-400
      # keep the replay files of this snapshot run
      for f in replays/selftest/${p}-${s}-*.json; do echo "REPLAY-FILE $f"; /venv/bin/python -c "import json,sys;print(json.dumps(json.load(open(sys.argv[1]))))" $f; done 2>/dev/null
    fi
  done
  echo "seed $s done $(date +%H:%M:%S)"
done
