#!/bin/bash
# one pass over all claimed properties at a given tier on a snapshot (or /repo); prints every summary line
# usage: tools/sweep.sh <tier> [budget-seconds] [seed]
SRC=${VP_RUN_REPO:-/repo}
export STREAMZ_SRC=$SRC
tier=${1:-thorough}; budget=$2; seed=$3
for p in C01 C02 C03 C04 C05 C08 C09 C10 C12 C13 C14 C15 C16 C17 C18 C19 C20; do
  args="--tier $tier --no-evidence"
  [ -n "$budget" ] && args="$args --budget $budget"
  [ -n "$seed" ] && args="$args --seed $seed"
  out=$(timeout 3600 /venv/bin/python check.py $p $args 2>&1); rc=$?
  echo "### prop=$p tier=$tier rc=$rc $(date +%H:%M:%S)"
  echo "$out" | grep -E "^VERIF_SEED|VIOLATION|oracle=|HARNESS|Error|KNOWN" | head -6 | cut -c1-400
  if [ $rc -ne 0 ]; then mkdir -p soak_replays; cp -r replays/selftest/${p}-* soak_replays/ 2>/dev/null; fi
done
