"""Behaviour-preserving refactorings of python-streamz/streamz: every check must stay green on
them (false-alarm resistance).  Same mechanics as tools/mutants.py (text replacement on a scratch copy)."""

B = []


def b(id, props, file, pairs, note=''):
    B.append({'id': id, 'props': props, 'file': file, 'pairs': pairs, 'note': note})


b('time-import-style', ['C13', 'C02', 'C08'], 'streamz/core.py',
  [("from time import time\n", "import time as _time\n"),
   ("            last = time()\n", "            last = _time.time()\n"),
   ("            duration = self.interval - (time() - last)", "            duration = self.interval - (_time.time() - last)"),
   ("            now = time()\n            if now < self.next:", "            now = _time.time()\n            if now < self.next:"),
   ("            self.next = time() + self.interval", "            self.next = _time.time() + self.interval")],
  'wall clock reached as module attribute instead of imported function')
b('partition-rename-buffers', ['C01', 'C08', 'C05'], 'streamz/core.py',
  [("        self._buffer = defaultdict(lambda: [])\n        self._metadata_buffer = defaultdict(lambda: [])\n        self._callbacks = {}",
    "        self._parts = defaultdict(lambda: [])\n        self._parts_md = defaultdict(lambda: [])\n        self._callbacks = {}"),
   ("        result, self._buffer[key] = self._buffer[key], []\n        metadata_result, self._metadata_buffer[key] = self._metadata_buffer[key], []",
    "        result, self._parts[key] = self._parts[key], []\n        metadata_result, self._parts_md[key] = self._parts_md[key], []"),
   ("        buffer = self._buffer[key]\n        metadata_buffer = self._metadata_buffer[key]",
    "        buffer = self._parts[key]\n        metadata_buffer = self._parts_md[key]")],
  'private attributes of partition renamed')
b('emit-snapshot-first', ['C01', 'C04', 'C05', 'C16'], 'streamz/core.py',
  [("        if metadata:\n            self._retain_refs(metadata, len(self.downstreams))\n        else:\n            metadata = []\n\n        result = []\n        for downstream in list(self.downstreams):",
    "        downstreams = list(self.downstreams)\n        if metadata:\n            self._retain_refs(metadata, len(downstreams))\n        else:\n            metadata = []\n\n        result = []\n        for downstream in downstreams:")],
  '_emit takes its snapshot of the downstreams before retaining')
b('zip-notify-after-emit', ['C03', 'C02', 'C01'], 'streamz/core.py',
  [("                buf.popleft()\n            self.condition.notify_all()\n            if self.literals:\n                tup = self.pack_literals(tup)\n            md = [m for ml in md for m in ml]\n            ret = self._emit(tup, md)\n            self._release_refs(md)\n            return ret",
    "                buf.popleft()\n            if self.literals:\n                tup = self.pack_literals(tup)\n            md = [m for ml in md for m in ml]\n            try:\n                ret = self._emit(tup, md)\n            finally:\n                self.condition.notify_all()\n            self._release_refs(md)\n            return ret")],
  'blocked producers are woken after the tuple was emitted instead of before')
b('latest-rename-flag', ['C14', 'C05'], 'streamz/core.py',
  [("self._dirty", "self._pending")], 'private flag renamed (all occurrences)')
b('timed-window-asyncio-sleep', ['C08', 'C02'], 'streamz/core.py',
  [("            self._release_refs(m)\n            yield self.last\n            yield gen.sleep(self.interval)\n\n\n@Stream.register_api()\nclass timed_window_unique",
    "            self._release_refs(m)\n            yield self.last\n            yield asyncio.sleep(self.interval)\n\n\n@Stream.register_api()\nclass timed_window_unique")],
  'asyncio.sleep instead of gen.sleep in the tick loop')
b('kafka-positions-dict', ['C09'], 'streamz/sources.py',
  [("        self.positions = [0] * self.npartitions\n", "        self.positions = {p: 0 for p in range(self.npartitions)}\n"),
   ("                        self.positions.extend([-1001] * (new_partitions - self.npartitions))\n",
    "                        self.positions.update({p: -1001 for p in range(self.npartitions, new_partitions)})\n")],
  'positions kept in a dict instead of a list')
b('sink-isawaitable-inspect', ['C04', 'C03', 'C16'], 'streamz/sinks.py',
  [("        if gen.isawaitable(result):\n            if metadata:", "        if inspect.isawaitable(result) or gen.is_future(result):\n            if metadata:")],
  'another way to recognise awaitables')
b('source-run-helper', ['C18', 'C17'], 'streamz/sources.py',
  [("        while not self.stopped:\n            await self._run()\n", "        while True:\n            if self.stopped:\n                break\n            await self._run()\n")],
  'loop condition written differently')
b('textfile-split-partition', ['C17', 'C18'], 'streamz/sources.py',
  [("                parts = self.buffer.split(self.delimiter)\n                self.buffer = parts.pop(-1)\n                for part in parts:\n                    await asyncio.gather(*self._emit(part + self.delimiter))",
    "                *parts, self.buffer = self.buffer.split(self.delimiter)\n                for part in parts:\n                    record = part + self.delimiter\n                    await asyncio.gather(*self._emit(record))")],
  'same splitting, written with unpacking')
b('gather-turn-renamed', ['C20'], 'streamz/dask.py',
  [("_previous", "_last_turn")], 'private attribute renamed (all occurrences)')
b('combine-latest-missing-list', ['C15', 'C01'], 'streamz/core.py',
  [("        self.missing.discard(upstream)\n        super(combine_latest, self)._remove_upstream(upstream)",
    "        if upstream in self.missing:\n            self.missing.remove(upstream)\n        super(combine_latest, self)._remove_upstream(upstream)")],
  'discard spelled out')
