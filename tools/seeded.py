#!/venv/bin/python
"""Intake of independently written breaking changes (sub-agent worktrees).

  seeded.py intake <id> <worktree> <property> [--needs "..."]
      confirms, in the worktree: the demo fails with the change and passes without,
      the touched areas' tests pass; stores seeded/<id>/{patch.diff, demo, meta.json}

  seeded.py run [<id> ...] [--budget 30] [--props C03,C16]
      for each stored change: git -C /repo apply; run the quick checks of the property
      (and any extra ones); git -C /repo checkout -- .   Records the verdicts in meta.json.
"""
import argparse
import glob
import json
import os
import shutil
import subprocess
import sys
import time

HERE = os.path.dirname(os.path.dirname(os.path.abspath(__file__)))
PY = '/venv/bin/python'


def sh(cmd, cwd=None, timeout=1800, env=None):
    r = subprocess.run(cmd, shell=True, cwd=cwd, capture_output=True, text=True, timeout=timeout, env=env)
    return r.returncode, (r.stdout + r.stderr)


def intake(a):
    wt = a.worktree
    d = os.path.join(HERE, 'seeded', a.id)
    os.makedirs(d, exist_ok=True)
    rc, diff = sh('git diff -- streamz', cwd=wt)
    if not diff.strip():
        print('no change in worktree')
        return 2
    open(os.path.join(d, 'patch.diff'), 'w').write(diff)
    demos = glob.glob(os.path.join(wt, 'demo_*.py')) + glob.glob(os.path.join(wt, 'test_demo*.py'))
    if not demos:
        print('no demo found')
        return 2
    demo = demos[0]
    shutil.copy(demo, os.path.join(d, os.path.basename(demo)))
    runner = '%s %s' % (PY, os.path.basename(demo)) if not os.path.basename(demo).startswith('test_') else \
        '%s -m pytest -q -p no:cacheprovider %s' % (PY, os.path.basename(demo))
    rc_with, out_with = sh('timeout 600 ' + runner, cwd=wt)
    # (git stash is shared between the worktrees of one repository: reverse-apply the patch instead)
    pth = os.path.join(d, 'patch.diff')
    sh('git apply -R %s' % pth, cwd=wt)
    try:
        rc_without, out_without = sh('timeout 600 ' + runner, cwd=wt)
    finally:
        sh('git apply %s' % pth, cwd=wt)
    tests = 'streamz/tests/test_core.py streamz/tests/test_sources.py streamz/tests/test_sinks.py'
    if 'dask.py' in diff:
        tests += ' streamz/tests/test_dask.py'
    if 'dataframe/' in diff:
        tests = 'streamz/dataframe/tests streamz/tests/test_core.py'
    rc_t, out_t = sh('timeout 1500 %s -m pytest -q -p no:cacheprovider %s' % (PY, tests), cwd=wt)
    flaky_note = ''
    if rc_t != 0:
        # timing assertions in the suite are flaky under CPU load: re-run the failed tests alone
        import re
        failed = re.findall(r'^FAILED (\S+)', out_t, flags=re.M)
        if failed:
            ok_all = True
            for _ in range(2):
                rc2, out2 = sh('timeout 900 %s -m pytest -q -p no:cacheprovider %s' % (PY, ' '.join("'%s'" % f for f in failed)), cwd=wt)
                ok_all = rc2 == 0
                if ok_all:
                    break
            if ok_all:
                rc_t = 0
                flaky_note = 'failed under load, passed when re-run alone: %s' % failed
                out_t += '\n' + out2
    meta = {
        'id': a.id, 'property': a.property, 'needs_to_manifest': a.needs or '', 'description': a.desc or '',
        'demo': os.path.basename(demo),
        'confirmed': {'demo_fails_with_change': rc_with != 0, 'demo_passes_without_change': rc_without == 0,
                      'existing_tests_pass_with_change': rc_t == 0, 'tests_run': tests,
                      'tests_tail': out_t.strip().splitlines()[-1:] if out_t.strip() else [], 'flaky_note': flaky_note},
        'ran': ['%s (in the worktree, with and without the change)' % runner, 'pytest ' + tests],
        'checks': {},
    }
    json.dump(meta, open(os.path.join(d, 'meta.json'), 'w'), indent=1)
    print(json.dumps(meta['confirmed'], indent=1))
    ok = rc_with != 0 and rc_without == 0 and rc_t == 0
    print('KEEP' if ok else 'REJECT (not confirmed)')
    return 0 if ok else 1


def run(a):
    T = {'tag': getattr(a, 'tag', '') or ''}     # (several scratch runs side by side: one pair of copies each)
    ids = a.ids or sorted(os.listdir(os.path.join(HERE, 'seeded')))
    rc, st = sh('git -C /repo status --porcelain -- streamz')
    if st.strip() and not a.scratch:
        print('refusing: /repo has uncommitted changes')
        return 2
    for i in ids:
        d = os.path.join(HERE, 'seeded', i)
        mp = os.path.join(d, 'meta.json')
        if not os.path.exists(mp):
            continue
        meta = json.load(open(mp))
        props = a.props.split(',') if a.props else [meta['property']]
        env = None
        if a.scratch:
            # a scratch copy of /repo's HEAD outside /repo and /verif (used while something else is busy with /repo)
            sh(('rm -rf /tmp/sz_seeded_mut%(tag)s /tmp/sz_seeded_clean%(tag)s; mkdir -p /tmp/sz_seeded_mut%(tag)s /tmp/sz_seeded_clean%(tag)s; '
                'git -C /repo archive HEAD | tar -x -C /tmp/sz_seeded_mut%(tag)s; git -C /repo archive HEAD | tar -x -C /tmp/sz_seeded_clean%(tag)s') % T)
            rc, out = sh('patch -p1 -s < %s' % os.path.join(d, 'patch.diff'), cwd='/tmp/sz_seeded_mut%(tag)s' % T)
            env = dict(os.environ, STREAMZ_SRC='/tmp/sz_seeded_mut%(tag)s' % T)
        else:
            rc, out = sh('git -C /repo apply %s' % os.path.join(d, 'patch.diff'))
        if rc != 0:
            print(i, 'patch does not apply:', out[-200:])
            meta['checks']['_apply'] = 'failed'
            json.dump(meta, open(mp, 'w'), indent=1)
            continue
        try:
            for p in props:
                t0 = time.time()
                rc, out = sh('timeout 900 %s check.py %s --tier quick --budget %s --no-evidence' % (PY, p, a.budget), cwd=HERE, env=env)
                lines = [ln for ln in out.splitlines() if ln.startswith('VIOLATION') or ln.startswith('  oracle=')]
                verdict = 'CAUGHT' if rc == 1 else ('missed' if rc == 0 else 'harness-error')
                meta['checks'][p] = {'verdict': verdict, 'seconds': round(time.time() - t0, 1), 'budget': a.budget,
                                     'first': lines[1][:300] if len(lines) > 1 else ''}
                if verdict == 'CAUGHT' and lines and 'replay=' in lines[0]:
                    meta['checks'][p]['replay'] = lines[0].split('replay=')[1].strip()
                print('%-28s %s %-8s %5.1fs %s' % (i, p, verdict, time.time() - t0, (lines[1][9:170] if len(lines) > 1 else out[-200:] if rc not in (0, 1) else '')))
        finally:
            if not a.scratch:
                sh('git -C /repo checkout -- .')
        # cross-check: what caught the change must not fire on the unchanged tree (else it is a false alarm of
        # the machinery, not a detection)
        for p in props:
            c = meta['checks'].get(p) or {}
            if c.get('verdict') == 'CAUGHT' and c.get('replay'):
                rc, out = sh('timeout 300 %s check.py --replay %s --quiet' % (PY, c['replay']), cwd=HERE,
                             env=dict(os.environ, STREAMZ_SRC='/tmp/sz_seeded_clean%(tag)s' % T) if a.scratch else None)
                c['replay_on_unchanged_tree'] = 'NOT-REPRODUCED' if (rc == 0 and 'NOT-REPRODUCED' in out) else 'REPRODUCED (false alarm!)' if 'REPRODUCED' in out else 'error rc=%s' % rc
                if c['replay_on_unchanged_tree'] != 'NOT-REPRODUCED':
                    print('   !!', i, p, c['replay_on_unchanged_tree'], out[-300:])
                c.pop('replay')
        json.dump(meta, open(mp, 'w'), indent=1)
    return 0


def main():
    ap = argparse.ArgumentParser()
    sub = ap.add_subparsers(dest='cmd')
    i = sub.add_parser('intake')
    i.add_argument('id')
    i.add_argument('worktree')
    i.add_argument('property')
    i.add_argument('--needs')
    i.add_argument('--desc')
    r = sub.add_parser('run')
    r.add_argument('ids', nargs='*')
    r.add_argument('--budget', default='30')
    r.add_argument('--props')
    r.add_argument('--scratch', action='store_true')
    r.add_argument('--tag', default='')
    a = ap.parse_args()
    if a.cmd == 'intake':
        return intake(a)
    if a.cmd == 'run':
        return run(a)
    ap.print_help()
    return 2


if __name__ == '__main__':
    sys.exit(main())
