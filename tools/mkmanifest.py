#!/venv/bin/python
"""Regenerates MANIFEST.json from the table below (kept here so that the
manifest, the not_applicable list and the level notes stay in one place)."""
import json
import os
import subprocess

HERE = os.path.dirname(os.path.dirname(os.path.abspath(__file__)))

TECH = 'deterministic simulation with fault injection: seeded search over schedules/faults on a virtual-time event loop, oracle over the recorded trace'

CHECKS = {
    'C01': ('exploration', 'seeded search over typed pipeline graphs (incl. feedback edges guarded by unique, forwarding sinks, falsy values), inputs, entry-point interleavings and execution modes (loop-less / on the simulated loop / loop in an emulated background thread); every synchronous node is compared exactly with its reference model (value level), every edge with the attach-order delivery contract, every sink with an independent reference interpreter', '4 (C01), 3.2',
            'reference models written from the docs; pure user functions; one-seed = one execution; sampling, not proof'),
    'C02': ('exploration', 'seeded search over schedules (consumer latencies, producer gaps, timer intervals, tie policy) of pipelines containing buffer / delay / rate_limit / map_async / timed_window / partition(timeout) / zip / union with native-coroutine, Tornado-coroutine, future and synchronous consumers; relational contracts per asynchronous node (FIFO, exactly once, per-producer order through map_async, batch content), exact contracts for the synchronous nodes inside, no exception that nobody raised', '4 (C02)',
            'virtual-time SimLoop runs the real asyncio/tornado scheduling code; durations on a dyadic grid; no reordering of ready callbacks (asyncio guarantees FIFO)'),
    'C03': ('exploration', 'seeded search over schedules and bounds (n, maxsize, parallelism in 1..4): never-early oracle on the dynamic extent of every awaited emit, bound oracle on accepted-but-not-handed-on elements (acceptance = the awaitable handed back by update() is done), no pending emit at quiescence when every consumer finished', '4 (C03)',
            'bounds are asserted where one awaiting producer feeds the bounded node through one-to-one nodes; buffer bound n+1 and map_async bound parallelism+1 (one element in the forwarder\'s hands)'),
    'C04': ('exploration', 'seeded search over schedules and programs with a traced reference counter on every element: at the instant the completion callback is scheduled the element must not be held by any node model, be inside an asynchronous node, be handled by an unfinished consumer or be on the stack of a running update(); never scheduled for an element whose processing raised', '4 (C04)',
            'holder models of the nodes; metadata identity is how "derived from" is decided'),
    'C05': ('exploration', 'seeded search; at every quiescent point (between emits for synchronous pipelines, after the drain for asynchronous ones) the count of each element equals the number of model holders; never negative, never rising after zero, callback triggered at zero', '4 (C05)',
            'elements emitted into a node without consumers are exempt; elements blocked for ever on legitimate backpressure are exempt'),
    'C08': ('exploration', 'seeded search over arrival patterns against ticks / timeouts and slow consumers: batch k of timed_window(_unique) is exactly the (de-duplicated) arrivals since batch k-1, partition(timeout) chunks are consecutive per key, never larger than n, a partial chunk leaves exactly one timeout after its first element, ticks are one interval apart plus the time spent waiting for downstream', '4 (C08)',
            'deadline oracle applied where the node feeds only synchronous nodes and sinks; loop stalls are not injected into the deadline oracle'),
    'C10': ('exploration', 'the metadata half of every node and edge contract on the same seeded pipelines, with metadata (0, 1 or 2 dicts, with and without a reference counter) on arbitrary subsets of the elements; shape: every arrival carries a flat list of dicts', '4 (C10)',
            'as C01 / C02'),
    'C13': ('exploration', 'seeded search over arrival patterns (bursts, idle gaps, 1-3 producers, awaiting or not, slow or fast consumers, same-loop and threaded operation, loop stalls): deliveries below rate_limit are FIFO, exactly once, at least one interval apart, and immediate after an idle interval; delay keeps order and count', '4 (C13)',
            'spacing is measured on the virtual clock; blocking user callbacks that stall the whole loop are injected as a fault kind (order and spacing must still hold; the "no needless delay after an idle interval" clause is not judged in runs with stalls)'),
    'C14': ('exploration', 'seeded search over arrivals against a busy consumer: what latest delivers is a strictly increasing subsequence of the arrivals, never the same arrival twice, and at quiescence the newest arrival has been delivered', '4 (C14)', 'as C02'),
    'C16': ('fault_enumeration', 'for every generated directly connected pipeline and input the fault-free run enumerates the user-function invocations; every single failing invocation (before and, for coroutines, after their await) is then executed, plus sampled multi-failure sets: the injected exception object is what the emitter gets, the failing node keeps its state, the failed element is never reported complete', '4 (C16)',
            'exhaustive over single failures per generated case, sampled over cases and multi-failure sets'),
}

CHECKS.update({
    'C17': ('exploration', 'from_textfile over a fake append-only file and filenames over a fake directory on the simulated loop: text over an alphabet containing the delimiter characters, cut into random chunks appended at random virtual times relative to start() and the polls, optional short reads, slow sinks, from_end, multi-character and self-overlapping delimiters, scenario-chosen listing orders; emitted records must be exactly text.split(delimiter)[:-1] each with its delimiter, in order, once, the unterminated tail withheld; every path exactly once, sorted per poll', '4 (C17)',
            'the file object and glob are fakes (open() and the real filesystem are a stub boundary); a chunk becomes visible atomically'),
    'C18': ('exploration', 'start()/stop() histories on from_iterable (one-shot iterator and list), from_periodic, from_textfile, filenames with slow sinks, calls placed before the scheduled run began, during the sleep, during a backpressured emit, at the same instant, plus redundant calls: at most one emission in flight and one cycle per poll interval (one polling loop), no new cycle after stop() before the next start(), differential idempotence (the history without the redundant calls gives the same observable trace), from_iterable emits exactly its items in order and takes the next only after downstream finished', '4 (C18)',
            'a polling cycle begins with the read / listing / callback / next() the fakes log; from_kafka* and socket sources are not part of this check'),
})

CHECKS.update({
    'C09': ('fault_enumeration', 'real FromKafkaBatched / get_message_batch / RefCounter over an in-memory fake of confluent_kafka and a FakeBroker that alone survives a crash: histories (arrivals per partition, partitions added, batch limit, reset policy, npartitions given/discovered, refresh, pre-committed offsets), schedules (consumer latencies, commit application delay), broker faults (transient committed()/get_watermark_offsets failures, in-flight commits lost or landed) and a crash after sampled (thorough: partly every) trace events of each history followed by a restart against the surviving broker; oracles: ranges contiguous / non-overlapping / start at the durable committed offset or the reset position / below the high watermark / within the batch limit / content equals the log slice, a commit is issued only for a batch that is no longer live anywhere below, caught up at the end', '4 (C09)',
            'the client and broker are fakes following the confluent_kafka call contracts streamz uses; no log retention; at-least-once is decided through its two halves (commit only after processing, restart resumes at the durable offset) under the in-order proviso of the statement'),
})

CHECKS.update({
    'C15': ('exploration', 'histories of emit / connect / disconnect / destroy / drop-reference+gc / add-sink operations over synchronous pipelines without parallel edges: after every operation the real upstream/downstream links are mutually consistent and equal to the model edge set (an operation that raises must not leave a half edit), every emission is delivered along exactly the edges that exist at that moment in attach order, zip / combine_latest emit what a node over their current inputs holding what those inputs delivered would emit (safety) and emit once all current inputs hold data (progress), unreferenced non-sink branches disappear from their parents, sinks stay until destroy()', '4 (C15)',
            'loop-less pipelines (reference-count driven collection is deterministic); slice and loop-requiring nodes are not edit targets; combine_latest edited without explicit emit_on'),
})

CHECKS.update({
    'C19': ('exploration', 'sequences of constructors (Stream, plain nodes, loop-requiring nodes, sinks, all file/iterable/periodic sources) in every order over several independent pipelines, each given asynchronous in {None, True, False} and loop in {None, caller\'s, another} where accepted, on a running simulated caller loop with a second explicit loop and a recorded (not started) background thread: a request that conflicts with the pipeline\'s binding must raise ValueError, a request that does not must not; all nodes of a pipeline share one loop object and one effective mode; a node declared asynchronous is bound to the caller\'s current loop, starts no thread, and when data flows every user callback runs on that loop and nothing is scheduled elsewhere; loop-needing nodes with nothing given use one shared background loop (exactly one thread start in total)', '4 (C19)',
            'chains only; effective mode compared as bool(asynchronous); state after a refused constructor not inspected'),
})

CHECKS.update({
    'C20': ('exploration', 'segments over map, starmap, accumulate (with/without start, returns_state), zip, buffer, partition, sliding_window, union are built twice from one spec - locally, and as scatter() ... gather() on the real streamz/dask.py classes over a fake cluster whose tasks, scatters and gathers finish at scenario-chosen virtual times (arbitrary completion orders respecting data dependencies); the sinks must observe equal sequences in equal order, the reference counters must end equal, and the completion callback is never early on the Dask twin', '4 (C20)',
            'the cluster is a stub (FakeClient: submit/scatter/gather/loop); one awaiting producer; merges below buffering nodes (schedule dependent even locally) are not generated'),
})

CHECKS.update({
    'C12': ('fault_enumeration', 'crash/restart with the exposed aggregation state as the only durable object: for every generated batch sequence (random sizes incl. empty batches, NaNs, keys entering and leaving, increasing timestamps) and every aggregation family that can expose its state (reductions, groupby, rolling by rows and by time, window(n), window(value), windowed groupby, expanding, ewm) EVERY cut k is executed - a new pipeline is started from a deep copy of the state emitted after batch k - plus chains of two restarts; the resumed results must equal the suffix of the uninterrupted run exactly', '4 (C12)',
            'no schedule is involved (the simulator contributes the crash/restart discipline only); equality is pandas testing equality with exact values'),
})

NOT_APPLICABLE = {
    'C06': 'pure function of the batch sequence and the expression tree: no schedule, clock, I/O, peer or fault occurs in the statement or the anchored code, so simulation would only be input generation in disguise (DESIGN 5)',
    'C07': 'same as C06: window(value=T) reads timestamps from the data index, never a clock (DESIGN 5)',
    'C11': 'same as C06: the split into batches is an input, not a schedule (DESIGN 5)',
}

PENDING = {k: 'check under construction in this session (will be claimed once built)' for k in []}


def main():
    checks = []
    for pid in sorted(CHECKS):
        level, text, ref, note = CHECKS[pid]
        checks.append({
            'property_id': pid,
            'quick_cmd': 'timeout 900 /venv/bin/python check.py %s --tier quick' % pid,
            'thorough_cmd': 'timeout 3600 /venv/bin/python check.py %s --tier thorough' % pid,
            'evidence_file': 'evidence/%s.json' % pid,
            'replay_cmd_template': '/venv/bin/python check.py --replay {path} --trace',
            'engine': 'simz',
            'level_claimed': {'category': level, 'text': text, 'design_ref': 'DESIGN.md section ' + ref},
            'level_note': note,
            'technique': TECH,
        })
    na = [{'property_id': k, 'reason': v} for k, v in sorted({**NOT_APPLICABLE, **PENDING}.items())]
    hooks = json.load(open(os.path.join(HERE, 'tools', 'hooks.json')))
    m = {
        'version': 1,
        'setup_cmd': '/venv/bin/python -c "import sys; sys.path.insert(0, \'/repo\'); import streamz, tornado, simz.loop" ',
        'hooks': hooks,
        'engines': [{'name': 'simz', 'path': 'simz/', 'serves_properties': sorted(CHECKS),
                     'kind_free_text': 'deterministic discrete-event simulator for streamz: virtual-time asyncio/tornado loop, scenario-as-JSON generator, executor, trace oracles, shrinker, replay'}],
        'checks': checks,
        'not_applicable': na,
        'notes': 'All checks: cwd=/verif, streamz imported from /repo working tree. Exit 0 held / 1 VIOLATION / 2 harness error. Replay: /venv/bin/python check.py --replay <file> [--trace].',
    }
    with open(os.path.join(HERE, 'MANIFEST.json'), 'w') as f:
        json.dump(m, f, indent=1)
    print('wrote MANIFEST.json: %d checks, %d not applicable' % (len(checks), len(na)))


if __name__ == '__main__':
    main()
