"""Sensitivity corpus: realistic single-site changes to python-streamz/streamz,
each with the property it breaks.  Applied by text replacement to a scratch
copy outside /repo and /verif (tools/selftest.py); never applied to /repo.
'revert:<commit subject prefix>' entries re-introduce a repaired defect by
reverse-applying the fix commit."""

M = []


def m(id, props, file, old, new, note=''):
    M.append({'id': id, 'props': props, 'file': file, 'old': old, 'new': new, 'note': note})


# ---- C01 -----------------------------------------------------------------
m('c01-emit-reversed', ['C01'], 'streamz/core.py',
  "        for downstream in list(self.downstreams):\n            r = downstream.update(x, who=self, metadata=metadata)",
  "        for downstream in reversed(list(self.downstreams)):\n            r = downstream.update(x, who=self, metadata=metadata)",
  'siblings visited in reverse attach order')
m('c01-sliding-emit-before-append', ['C01'], 'streamz/core.py',
  "        self._retain_refs(metadata)\n        self._buffer.append(x)\n        if not isinstance(metadata, list):\n            metadata = [metadata]\n        self.metadata_buffer.append(metadata)\n        if self.partial or len(self._buffer) == self.n:",
  "        self._retain_refs(metadata)\n        if not isinstance(metadata, list):\n            metadata = [metadata]\n        self.metadata_buffer.append(metadata)\n        if self.partial or len(self._buffer) == self.n - 1:\n            pass\n        self._buffer.append(x)\n        if self.partial or len(self._buffer) == self.n + 1:",
  'non-partial window never emits')
m('c01-unique-no-refresh', ['C01'], 'streamz/core.py',
  "            if y in self.seen:\n                self.seen.remove(y)\n                emit = False\n            self.seen.insert(0, y)",
  "            if y in self.seen:\n                emit = False\n            else:\n                self.seen.insert(0, y)",
  'LRU (list variant) does not refresh on hit')
m('c01-zip-literal-off-by-one', ['C01'], 'streamz/core.py',
  "            while len(out) < i:\n                out.append(inp.pop())",
  "            while len(out) < i - 1:\n                out.append(inp.pop())",
  'zip literal position')
m('c01-partition-shared-buffer', ['C01'], 'streamz/core.py',
  "        key = self._get_key(x)\n        buffer = self._buffer[key]\n        metadata_buffer = self._metadata_buffer[key]",
  "        key = self._get_key(x)\n        key = None if len(self._buffer) > 1 else key\n        buffer = self._buffer[key]\n        metadata_buffer = self._metadata_buffer[key]",
  'third distinct key shares the None buffer')
m('c01-accumulate-old-state', ['C01'], 'streamz/core.py',
  "            self.state = state\n            if self.with_state:\n                return self._emit((self.state, result), metadata=metadata)\n            else:\n                return self._emit(result, metadata=metadata)",
  "            old, self.state = self.state, state\n            if self.with_state:\n                return self._emit((old, result), metadata=metadata)\n            else:\n                return self._emit(result, metadata=metadata)",
  'with_state emits the previous state')
m('c01-combine-latest-emit-on-all', ['C01'], 'streamz/core.py',
  "        if not self.missing and who in self.emit_on:",
  "        if not self.missing and (who in self.emit_on or who is self.upstreams[0]):",
  'emit_on ignored for the first input')
m('c01-collect-keeps-cache', ['C01', 'C05'], 'streamz/core.py',
  "        self._release_refs(metadata)\n        self.cache.clear()\n        self.metadata_cache.clear()\n        if result and self.loop is not None:",
  "        self._release_refs(metadata)\n        self.metadata_cache.clear()\n        if len(self.cache) % 3:\n            self.cache.clear()\n        if result and self.loop is not None:",
  'collect forgets to clear when the cache size is a multiple of 3')
m('c01-filter-none-predicate', ['C01'], 'streamz/core.py',
  "        if self.predicate(x, *self.args, **self.kwargs):\n            return self._emit(x, metadata=metadata)",
  "        if self.predicate(x, *self.args, **self.kwargs):\n            return self._emit(x, metadata=metadata)\n        elif isinstance(x, tuple) and len(x) == 3:\n            return self._emit(x, metadata=metadata)",
  'filter lets 3-tuples through')
# ---- C02 -----------------------------------------------------------------
m('c02-timed-window-swap-after-emit', ['C02', 'C08'], 'streamz/core.py',
  "            L, self._buffer = self._buffer, []\n            metadata, self.metadata_buffer = self.metadata_buffer, []\n            m = [m for ml in metadata for m in ml]\n            self.last = gen.convert_yielded(self._emit(L, m))\n            self._release_refs(m)\n            yield self.last",
  "            L = self._buffer\n            metadata = self.metadata_buffer\n            m = [m for ml in metadata for m in ml]\n            self.last = gen.convert_yielded(self._emit(list(L), m))\n            self._release_refs(m)\n            yield self.last\n            self._buffer, self.metadata_buffer = [], []",
  'arrivals during an emission are dropped')
m('c02-zip-pop-before-read', ['C02', 'C01'], 'streamz/core.py',
  "            vals = [self.buffers[up][0] for up in self.upstreams]\n            tup, md = __builtins__['zip'](*vals)\n            for buf in self.buffers.values():\n                buf.popleft()",
  "            vals = [self.buffers[up][-1] for up in self.upstreams]\n            tup, md = __builtins__['zip'](*vals)\n            for buf in self.buffers.values():\n                buf.popleft()",
  'zip pairs with the newest instead of the oldest')
m('c02-delay-lifo', ['C02', 'C13'], 'streamz/core.py',
  "        self.interval = convert_interval(interval)\n        self.queue = Queue()\n",
  "        self.interval = convert_interval(interval)\n        from tornado.queues import LifoQueue\n        self.queue = LifoQueue()\n",
  'delay emits newest first')
m('c02-map-async-completion-order', ['C02'], 'streamz/core.py',
  "            task, metadata = await self.work_queue.get()\n            self.work_queue.task_done()",
  "            task, metadata = await self.work_queue.get()\n            self.work_queue.task_done()\n            if not task.done() and not self.work_queue.empty():\n                other = self.work_queue.get_nowait()\n                self.work_queue.put_nowait((task, metadata))\n                task, metadata = other",
  'a job that is not finished yet is overtaken by the next one')
# ---- C03 -----------------------------------------------------------------
m('c03-buffer-unbounded', ['C03'], 'streamz/core.py',
  "    def __init__(self, upstream, n, **kwargs):\n        self.queue = Queue(maxsize=n)",
  "    def __init__(self, upstream, n, **kwargs):\n        self.queue = Queue(maxsize=n * 2 + 1)",
  'buffer holds more than n')
m('c03-zip-no-wait', ['C03'], 'streamz/core.py',
  "        elif len(L) > self.maxsize:\n            return self.condition.wait()",
  "        elif len(L) > self.maxsize + 2:\n            return self.condition.wait()",
  'zip accepts maxsize+2')
m('c03-zip-no-notify', ['C03'], 'streamz/core.py',
  "                buf.popleft()\n            self.condition.notify_all()",
  "                buf.popleft()\n            if len(self.upstreams) < 3:\n                self.condition.notify_all()",
  'three-input zip never wakes a blocked producer')
m('c03-emit-no-gather', ['C03'], 'streamz/core.py',
  "            ret = self._emit(tuple(self._buffer), flat_metadata)\n            if len(self.metadata_buffer) == self.n:\n                completed = self.metadata_buffer.popleft()\n                self._release_refs(completed)\n            return ret",
  "            ret = self._emit(tuple(self._buffer), flat_metadata)\n            if len(self.metadata_buffer) == self.n:\n                completed = self.metadata_buffer.popleft()\n                self._release_refs(completed)\n            return []",
  'sliding_window drops the downstream awaitables')
m('c03-map-async-queue', ['C03'], 'streamz/core.py',
  "        self.work_queue = asyncio.Queue(maxsize=parallelism)",
  "        self.work_queue = asyncio.Queue(maxsize=parallelism + 2)",
  'map_async accepts more jobs than parallelism')
m('c03-partition-no-wait-flush', ['C03'], 'streamz/core.py',
  "                self._callbacks[key].cancel()\n            yield self._flush(key)\n            return",
  "                self._callbacks[key].cancel()\n            self._flush(key)\n            return",
  'the n-th element does not wait for the flush')
# ---- C04 / C05 -------------------------------------------------------------
m('c04-buffer-release-early', ['C04'], 'streamz/core.py',
  "            x, metadata = yield self.queue.get()\n            yield self._emit(x, metadata=metadata)\n            self._release_refs(metadata)\n\n\n@Stream.register_api()\nclass zip(Stream):",
  "            x, metadata = yield self.queue.get()\n            self._release_refs(metadata)\n            yield self._emit(x, metadata=metadata)\n\n\n@Stream.register_api()\nclass zip(Stream):",
  'buffer releases before delivering')
m('c04-partition-release-early', ['C04'], 'streamz/core.py',
  "        yield self._emit(tuple(result), list(metadata_result))\n        self._release_refs(metadata_result)",
  "        self._release_refs(metadata_result)\n        yield self._emit(tuple(result), list(metadata_result))",
  'partition releases before delivering')
m('c04-delay-release-early', ['C04'], 'streamz/core.py',
  "            x, metadata = yield self.queue.get()\n            yield self._emit(x, metadata=metadata)\n            self._release_refs(metadata)\n            duration",
  "            x, metadata = yield self.queue.get()\n            self._release_refs(metadata)\n            yield self._emit(x, metadata=metadata)\n            duration",
  'delay releases before delivering')
m('c04-sink-release-on-error', ['C04', 'C16'], 'streamz/sinks.py',
  "        self._retain_refs(metadata)\n        result = yield awaitable\n        self._release_refs(metadata)\n        return result",
  "        self._retain_refs(metadata)\n        try:\n            result = yield awaitable\n        finally:\n            self._release_refs(metadata)\n        return result",
  'a failed async sink still reports completion')
m('c05-combine-latest-leak', ['C05'], 'streamz/core.py',
  "        idx = self.upstreams.index(who)\n        if self.metadata[idx]:\n            self._release_refs(self.metadata[idx])\n        self.metadata[idx] = metadata\n\n        if self.missing and who in self.missing:",
  "        idx = self.upstreams.index(who)\n        if self.metadata[idx] and idx == 0:\n            self._release_refs(self.metadata[idx])\n        self.metadata[idx] = metadata\n\n        if self.missing and who in self.missing:",
  'replaced metadata of inputs other than the first is never released')
m('c05-zip-latest-double-release', ['C05'], 'streamz/core.py',
  "                L.extend(self._emit(tuple(self.last), md))\n                self._release_refs(self.metadata[0])",
  "                L.extend(self._emit(tuple(self.last), md))\n                self._release_refs(self.metadata[0])\n                if len(self.lossless_buffer) == 1:\n                    self._release_refs(self.metadata[0])",
  'double release when draining a backlog')
m('c05-sliding-window-release-all', ['C05', 'C04'], 'streamz/core.py',
  "            if len(self.metadata_buffer) == self.n:\n                completed = self.metadata_buffer.popleft()\n                self._release_refs(completed)\n            return ret",
  "            if len(self.metadata_buffer) == self.n:\n                completed = self.metadata_buffer.popleft()\n                self._release_refs(completed)\n            elif len(self.metadata_buffer) == 1:\n                self._release_refs(self.metadata_buffer[0])\n            return ret",
  'the first member of an unfilled window is released while still held')
m('c05-latest-no-release', ['C05'], 'streamz/core.py',
  "        if self.next_metadata and not self._delivering:\n            # the element being replaced is not in use; one that is still\n            # being delivered is released by cb once delivery has finished\n            self._release_refs(self.next_metadata)",
  "        if self.next_metadata and not self._delivering and not self._dirty:\n            self._release_refs(self.next_metadata)",
  'an element replaced before it was picked up is never released')
# ---- C08 -----------------------------------------------------------------
m('c08-partition-timer-not-cancelled', ['C08'], 'streamz/core.py',
  "            if self._timeout is not None and self.n > 1:\n                self._callbacks[key].cancel()",
  "            if self._timeout is not None and self.n > 2:\n                self._callbacks[key].cancel()",
  'size flush of a 2-partition leaves the timer armed')
m('c08-partition-oversize', ['C08'], 'streamz/core.py',
  "        if len(buffer) == self.n:\n            if self._timeout",
  "        if len(buffer) == self.n + (1 if self._timeout and key else 0):\n            if self._timeout",
  'keyed partitions with a timeout grow to n+1')
m('c08-twu-keep-swapped', ['C08'], 'streamz/core.py',
  "        self.interval = convert_interval(interval)\n        self.key = key\n        self.keep = keep\n        self._buffer = {}\n        self._metadata_buffer = {}\n        self.last = gen.moment",
  "        self.interval = convert_interval(interval)\n        self.key = key\n        self.keep = 'first' if keep == 'last' else 'last'\n        self._buffer = {}\n        self._metadata_buffer = {}\n        self.last = gen.moment",
  'timed_window_unique keep first/last swapped')
m('c08-timed-window-slow-tick', ['C08'], 'streamz/core.py',
  "            self._release_refs(m)\n            yield self.last\n            yield gen.sleep(self.interval)\n\n\n@Stream.register_api()\nclass timed_window_unique",
  "            self._release_refs(m)\n            yield self.last\n            yield gen.sleep(self.interval * (2 if L else 1))\n\n\n@Stream.register_api()\nclass timed_window_unique",
  'a non-empty batch doubles the next interval')
# ---- C09 -----------------------------------------------------------------
m('c09-commit-offset', ['C09'], 'streamz/sources.py',
  "            _tp = ck.TopicPartition(topic, part_no, offset + 1)",
  "            _tp = ck.TopicPartition(topic, part_no, offset)",
  'commits the last processed offset instead of the next one')
m('c09-position-gap', ['C09'], 'streamz/sources.py',
  "                    self.positions[partition] = high\n            self.consumer_params['auto.offset.reset'] = 'earliest'",
  "                    self.positions[partition] = high + (1 if high - lowest == self.max_batch_size and partition else 0)\n            self.consumer_params['auto.offset.reset'] = 'earliest'",
  'a full batch on partitions > 0 skips one message')
m('c09-ignore-max-batch', ['C09'], 'streamz/sources.py',
  "                if high > lowest + self.max_batch_size:\n                    high = lowest + self.max_batch_size",
  "                if high > lowest + self.max_batch_size + 1:\n                    high = lowest + self.max_batch_size",
  'batch may exceed the limit by one')
m('c09-ignore-committed', ['C09'], 'streamz/sources.py',
  "                for tp in committed:\n                    self.positions[tp.partition] = tp.offset\n                break",
  "                for tp in committed:\n                    self.positions[tp.partition] = tp.offset if tp.partition == 0 else -1001\n                break",
  'committed offsets of partitions > 0 ignored at start-up')
m('c09-get-batch-short', ['C09'], 'streamz/sources.py',
  "                if high <= msg.offset():\n                    break",
  "                if high <= msg.offset() + (1 if low and high - low > 1 else 0):\n                    break",
  'get_message_batch drops the last message of some batches')
m('c09-ignore-low-watermark', ['C09'], 'streamz/sources.py',
  "                lowest = max(current_position, low)",
  "                lowest = max(current_position, 0)",
  'messages deleted by retention are requested anyway')
# ---- C10 -----------------------------------------------------------------
m('c10-partition-append', ['C10'], 'streamz/core.py',
  "        if isinstance(metadata, list):\n            metadata_buffer.extend(metadata)\n        else:\n            metadata_buffer.append(metadata)\n        if len(buffer) == self.n:",
  "        if isinstance(metadata, list) and len(metadata) != 2:\n            metadata_buffer.extend(metadata)\n        else:\n            metadata_buffer.append(metadata)\n        if len(buffer) == self.n:",
  'two-dict metadata nested inside a partition')
m('c10-zip-arrival-order', ['C10'], 'streamz/core.py',
  "            md = [m for ml in md for m in ml]\n            ret = self._emit(tup, md)\n            self._release_refs(md)\n            return ret",
  "            md = [m for ml in reversed(md) for m in ml]\n            ret = self._emit(tup, md)\n            self._release_refs(md)\n            return ret",
  'zip concatenates metadata in reverse input order')
m('c10-flatten-first', ['C10'], 'streamz/core.py',
  "        for item_next in items:\n            y = self._emit(item)\n            item = item_next",
  "        first = True\n        for item_next in items:\n            y = self._emit(item, metadata=metadata if first else None)\n            first = False\n            item = item_next",
  'flatten attaches the metadata to the first piece too')
m('c10-map-async-drop-md', ['C10', 'C04'], 'streamz/core.py',
  "                results = self._emit(result, metadata=metadata)\n                if results:\n                    await asyncio.gather(*results)",
  "                results = self._emit(result, metadata=metadata if len(metadata or []) != 1 else None)\n                if results:\n                    await asyncio.gather(*results)",
  'map_async drops single-dict metadata')
# ---- C13 / C14 -------------------------------------------------------------
m('c13-forget-queued-slots', ['C13'], 'streamz/core.py',
  "            self.next = time() + self.interval\n        yield self._emit(x, metadata=metadata)",
  "            self.next = now + self.interval\n        yield self._emit(x, metadata=metadata)",
  'the next slot is counted from the arrival, not from the departure: elements that waited leave too closely')
m('c13-sleep-short', ['C13'], 'streamz/core.py',
  "            if now < self.next:\n                yield gen.sleep(self.next - now)\n            self.next = time() + self.interval",
  "            if now < self.next:\n                yield gen.sleep((self.next - now) / 2 if self.next - now > self.interval / 2 else self.next - now)\n            self.next = time() + self.interval",
  'long waits are cut in half')
m('c14-read-next-after-emit', ['C14'], 'streamz/core.py',
  "            self._dirty = False\n            [x] = self.next\n            metadata = self.next_metadata\n            self._delivering = True\n            yield self._emit(x, metadata)",
  "            [x] = self.next\n            metadata = self.next_metadata\n            self._delivering = True\n            yield self._emit(x, metadata)\n            self._dirty = False",
  'an arrival during delivery is forgotten')
m('c14-keep-older', ['C14'], 'streamz/core.py',
  "        self.next = [x]\n        self.next_metadata = metadata\n        self._delivering = False\n        self._dirty = True",
  "        if not (self._dirty and self._delivering is False and self.next):\n            self.next = [x]\n        self.next_metadata = metadata\n        self._delivering = False\n        self._dirty = True",
  'a second arrival before pick-up keeps the older element')
# ---- C15 -----------------------------------------------------------------
m('c15-disconnect-forgets-upstream', ['C15'], 'streamz/core.py',
  "        self._remove_downstream(downstream)\n\n        downstream._remove_upstream(self)",
  "        self._remove_downstream(downstream)\n\n        if len(downstream.upstreams) > 1:\n            downstream._remove_upstream(self)",
  'disconnect of an only upstream leaves the child pointing at it')
m('c15-destroy-live-list', ['C15'], 'streamz/core.py',
  "        for upstream in list(streams):\n            upstream._remove_downstream(self)\n            self._remove_upstream(upstream)",
  "        for upstream in streams:\n            upstream._remove_downstream(self)\n            self._remove_upstream(upstream)",
  'destroy skips every second upstream')
m('c15-zip-add-upstream-no-buffer', ['C15'], 'streamz/core.py',
  "        self.buffers[upstream] = deque()\n        super(zip, self)._add_upstream(upstream)",
  "        super(zip, self)._add_upstream(upstream)",
  'connecting a new input to zip creates no buffer')
m('c15-strong-downstreams', ['C15'], 'streamz/orderedweakset.py',
  "        super(OrderedWeakrefSet, self).__init__()\n        self.data = OrderedSet()",
  "        super(OrderedWeakrefSet, self).__init__()\n        self.data = OrderedSet()\n        self._strong = []\n\n    def add(self, item):\n        self._strong.append(item)\n        return super(OrderedWeakrefSet, self).add(item)",
  'downstream set keeps strong references')
m('c15-combine-latest-stale-last', ['C15'], 'streamz/core.py',
  "        self.last.pop(self.upstreams.index(upstream))\n        self.metadata.pop(self.upstreams.index(upstream))",
  "        self.last.pop(0)\n        self.metadata.pop(self.upstreams.index(upstream))",
  'removing a later input drops the value of the first one')
# ---- C16 -----------------------------------------------------------------
m('c16-accumulate-state-before-func', ['C16'], 'streamz/core.py',
  "            try:\n                result = self.func(self.state, x, **self.kwargs)\n            except Exception as e:\n                logger.exception(e)\n                raise\n            if self.returns_state:",
  "            prev = self.state\n            self.state = x\n            try:\n                result = self.func(prev, x, **self.kwargs)\n            except Exception as e:\n                logger.exception(e)\n                raise\n            if self.returns_state:",
  'a failing accumulate function leaves the state overwritten')
m('c16-map-swallow', ['C16'], 'streamz/core.py',
  "        try:\n            result = self.func(x, *self.args, **self.kwargs)\n        except Exception as e:\n            logger.exception(e)\n            raise\n        else:\n            return self._emit(result, metadata=metadata)\n\n\n@Stream.register_api()\nclass map_async",
  "        try:\n            result = self.func(x, *self.args, **self.kwargs)\n        except Exception as e:\n            logger.exception(e)\n            return []\n        else:\n            return self._emit(result, metadata=metadata)\n\n\n@Stream.register_api()\nclass map_async",
  'map swallows exceptions of its function')
m('c16-emit-release-finally', ['C16', 'C04'], 'streamz/core.py',
  "            r = downstream.update(x, who=self, metadata=metadata)\n\n            if type(r) is list:\n                result.extend(r)\n            else:\n                result.append(r)\n\n            self._release_refs(metadata)",
  "            try:\n                r = downstream.update(x, who=self, metadata=metadata)\n            finally:\n                self._release_refs(metadata)\n\n            if type(r) is list:\n                result.extend(r)\n            else:\n                result.append(r)",
  'references are released even when the downstream raised')
# ---- C17 -----------------------------------------------------------------
m('c17-tail-duplicated', ['C17'], 'streamz/sources.py',
  "                self.buffer = parts.pop(-1)",
  "                self.buffer = parts[-1]\n                if not self.buffer:\n                    parts.pop(-1)",
  'an unterminated tail is also emitted')
m('c17-delimiter-in-chunk', ['C17'], 'streamz/sources.py',
  "            if self.delimiter in self.buffer:",
  "            if self.delimiter in line:",
  'a delimiter split across two reads is not recognised until the next one')
m('c17-no-delimiter-readded', ['C17'], 'streamz/sources.py',
  "                    await asyncio.gather(*self._emit(part + self.delimiter))",
  "                    await asyncio.gather(*self._emit(part + self.delimiter[:1]))",
  'multi-character delimiters are truncated')
m('c17-filenames-seen-late', ['C17'], 'streamz/sources.py',
  "        for fn in sorted(new):\n            self.seen.add(fn)\n            await asyncio.gather(*self._emit(fn))",
  "        for fn in new:\n            self.seen.add(fn)\n            await asyncio.gather(*self._emit(fn))",
  'paths of one poll are emitted in set order')
# ---- C18 -----------------------------------------------------------------
m('c18-start-no-guard', ['C18'], 'streamz/sources.py',
  "            if not getattr(self, '_running', False):\n                self._running = True\n                self.loop.add_callback(self._run_once)\n            else:\n                self._start_pending = True",
  "            self._running = True\n            self.loop.add_callback(self._run_once)",
  'restart while the old loop is suspended starts a second loop')
m('c18-periodic-no-recheck', ['C18'], 'streamz/sources.py',
  "        while not self.stopped:\n            await self._run()",
  "        while True:\n            await self._run()\n            if self.stopped:\n                break",
  'a run scheduled before stop() still performs one cycle')
m('c18-iterable-skips', ['C18'], 'streamz/sources.py',
  "            await asyncio.gather(*self._emit(x))\n        self.stopped = True",
  "            await asyncio.gather(*self._emit(x))\n            if self.stopped:\n                next(iterator, None)\n        self.stopped = True",
  'an item is consumed when the source is stopped during an emit')
# ---- C19 -----------------------------------------------------------------
m('c19-no-percolate-down', ['C19'], 'streamz/core.py',
  "            for downstream in self.downstreams:\n                if downstream:\n                    downstream._inform_loop(loop)",
  "            for downstream in self.downstreams:\n                if downstream and False:\n                    downstream._inform_loop(loop)",
  'a loop learnt later is not passed to existing children')
m('c19-inherit-nothing', ['C19'], 'streamz/core.py',
  "                if upstream and upstream.asynchronous:\n                    # also tells the other upstreams, which may not have a\n                    # mode yet (they get the loop through _set_loop)\n                    self._inform_asynchronous(upstream.asynchronous)\n                    break",
  "                pass",
  'children do not inherit the asynchronous mode')
m('c19-new-loop-each-time', ['C19'], 'streamz/core.py',
  "    if not _io_loops:\n        loop = IOLoop(make_current=False)",
  "    if True:\n        loop = IOLoop(make_current=False)",
  'every blocking pipeline gets its own loop thread')
m('c19-ignore-conflict', ['C19'], 'streamz/core.py',
  "            if self.loop is not loop:\n                raise ValueError(\"Two different event loops active\")",
  "            if self.loop is not loop:\n                return",
  'a conflicting loop request is silently ignored')
# ---- C20 -----------------------------------------------------------------
m('c20-accumulate-new-state', ['C20'], 'streamz/dask.py',
  "            result = client.submit(self.func, self.state, x, **self.kwargs)\n            if self.returns_state:\n                state = client.submit(getitem, result, 0)\n                result = client.submit(getitem, result, 1)",
  "            result = client.submit(self.func, self.state, x, **self.kwargs)\n            if self.returns_state:\n                state = client.submit(getitem, result, 1)\n                result = client.submit(getitem, result, 1)",
  'returns_state keeps the result as the state')
m('c20-gather-no-order', ['C20'], 'streamz/dask.py',
  "            result = yield client.gather(x, asynchronous=True)\n            if previous is not None:\n                yield previous\n",
  "            result = yield client.gather(x, asynchronous=True)\n",
  'gather emits in completion order')
m('c20-scatter-release-early', ['C20'], 'streamz/dask.py',
  "            emitted = self._emit(future, metadata=metadata)\n        finally:\n            turn.set_result(None)\n        f = yield emitted\n        self._release_refs(metadata)",
  "            self._release_refs(metadata)\n            emitted = self._emit(future, metadata=metadata)\n        finally:\n            turn.set_result(None)\n        f = yield emitted",
  'scatter releases before the element was handed on')
m('c20-starmap-drops-kwargs', ['C20'], 'streamz/dask.py',
  "        result = client.submit(apply, self.func, x, self.kwargs)",
  "        result = client.submit(apply, self.func, x, {})",
  'Dask starmap drops keyword arguments')
# ---- C12 -----------------------------------------------------------------
m('c12-rolling-ignores-start', ['C12'], 'streamz/dataframe/core.py',
  "                                               kwargs=kwargs,\n                                               start=self.start,",
  "                                               kwargs=kwargs,\n                                               start=(),",
  'a resumed rolling aggregation starts without its history')
m('c12-ewm-hidden-flag', ['C12'], 'streamz/dataframe/aggregations.py',
  "        result, old_wt, is_first = acc\n        for i in range(int(is_first), len(new)):",
  "        result, old_wt, is_first = acc\n        is_first = not getattr(self, '_started', False)\n        if len(new):\n            self._started = True\n        for i in range(int(is_first), len(new)):",
  'ewm keeps "first batch seen" on the aggregation object instead of in the exposed state')
m('c12-groupby-sum-ignores-start', ['C12'], 'streamz/dataframe/core.py',
  "        return self._accumulate(aggregations.GroupbySum, start=start)",
  "        return self._accumulate(aggregations.GroupbySum, start=None)",
  'groupby sum drops the start state')
m('c12-time-window-ignores-start', ['C12'], 'streamz/dataframe/core.py',
  "                                               agg=agg,\n                                               start=self.start,\n                                               returns_state=True,\n                                               stream_type='updating',\n                                               with_state=self.with_state)\n\n    def full(self):",
  "                                               agg=agg,\n                                               start=self.start if self.n is not None else None,\n                                               returns_state=True,\n                                               stream_type='updating',\n                                               with_state=self.with_state)\n\n    def full(self):",
  'window(value=...) ignores the start state')
m('c13-interval-string-in-minutes', ['C13', 'C08'], 'streamz/core.py',
  "        interval = pd.Timedelta(interval).total_seconds()",
  "        interval = pd.Timedelta(interval).total_seconds() / 60",
  'time strings read in the wrong unit (only the string spelling of an interval is affected)')
m('c15-buffer-drain-exits-without-upstreams', ['C15'], 'streamz/core.py',
  "    @gen.coroutine\n    def cb(self):\n        while True:\n            x, metadata = yield self.queue.get()",
  "    @gen.coroutine\n    def cb(self):\n        while self.upstreams:\n            x, metadata = yield self.queue.get()",
  'the drain coroutine of buffer ends when the node has no upstream left: a buffer that is disconnected and reconnected is dead')
