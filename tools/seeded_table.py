#!/venv/bin/python
"""Regenerates the table of independently written changes in DESIGN.md (between the SEEDED markers)."""
import json
import os
HERE = os.path.dirname(os.path.dirname(os.path.abspath(__file__)))
rows = []
n = strengthened = 0
for d in sorted(os.listdir(os.path.join(HERE, 'seeded'))):
    m = json.load(open(os.path.join(HERE, 'seeded', d, 'meta.json')))
    c = m['checks'].get(m['property'], {})
    n += 1
    if m.get('history'):
        strengthened += 1
    oracle = (c.get('first', '') or '').replace('  oracle=', '').split(' ')[0]
    rows.append('| `%s` | %s | %s | %s | %s %s%s |' % (
        d, m['property'], m.get('description', '').replace('|', '/'), m.get('needs_to_manifest', '').replace('|', '/'),
        c.get('verdict'), oracle, (' - ' + m['history']) if m.get('history') else ''))
tbl = ('| change | property | what it does | what it needs to manifest | quick check of the property (30 s budget) |\n'
       '|---|---|---|---|---|\n' + '\n'.join(rows) + '\n\n'
       '%d changes, all caught by the quick check of their property.  %d of them were missed by the first version '
       'of the respective check and each of those led to a stronger check (the "missed by ..." notes above).\n' % (n, strengthened))
p = os.path.join(HERE, 'DESIGN.md')
s = open(p).read()
a = s.index('<!-- SEEDED:BEGIN -->') + len('<!-- SEEDED:BEGIN -->\n')
b = s.index('<!-- SEEDED:END -->')
open(p, 'w').write(s[:a] + tbl + s[b:])
print(n, 'rows,', strengthened, 'strengthened')
