"""In-process stand-in for distributed.Client: tasks finish at scenario-chosen
virtual times on the simulated loop, respecting data dependencies.  Only what
streamz/dask.py uses: submit, scatter, gather, loop."""
import asyncio


class FakeFuture:
    def __init__(self, client, key):
        self.client = client
        self.key = key
        self.done = False
        self.result = None
        self.exc = None
        self.waiters = []

    def __repr__(self):
        return 'Fut(%d)' % self.key

    def __dask_tokenize__(self):
        # like distributed.Future: a future is identified by its key
        return ('Future', self.key)

    def _finish(self, result=None, exc=None):
        self.done = True
        self.result = result
        self.exc = exc
        ws, self.waiters = self.waiters, []
        for w in ws:
            w()


def _futures_in(x, acc):
    if isinstance(x, FakeFuture):
        acc.append(x)
    elif isinstance(x, (tuple, list)):
        for i in x:
            _futures_in(i, acc)
    elif isinstance(x, dict):
        for i in x.values():
            _futures_in(i, acc)
    return acc


def _resolve(x):
    if isinstance(x, FakeFuture):
        if x.exc is not None:
            raise x.exc
        return x.result
    if isinstance(x, tuple):
        return tuple(_resolve(i) for i in x)
    if isinstance(x, list):
        return [_resolve(i) for i in x]
    if isinstance(x, dict):
        return {k: _resolve(v) for k, v in x.items()}
    return x


class FakeClient:
    def __init__(self, lp, rec, spec):
        self.lp = lp
        self.rec = rec
        self.spec = spec or {}
        self.nkeys = 0
        self.ntasks = 0
        self._by_key = {}
        self.nscatter = 0
        self.ngather = 0
        self.asynchronous = True

    @property
    def loop(self):
        from tornado.ioloop import IOLoop
        return IOLoop.current()

    def _lat(self, name, k):
        L = self.spec.get(name) or [0]
        return L[k % len(L)] or 0

    def _new(self):
        self.nkeys += 1
        return FakeFuture(self, self.nkeys)

    def _when_all(self, futs, cb):
        pend = [f for f in futs if not f.done]
        if not pend:
            cb()
            return
        state = {'n': len(pend)}

        def one():
            state['n'] -= 1
            if state['n'] == 0:
                cb()
        for f in pend:
            f.waiters.append(one)

    def submit(self, func, *args, key=None, pure=None, workers=None, resources=None, retries=None, priority=0,
               fifo_timeout=None, allow_other_workers=False, actor=False, actors=False, **kwargs):
        # (the keywords distributed.Client.submit consumes itself are not passed on to the function)
        if key is not None:
            # one task per key: a second submission under a key that is still alive gets the existing future
            known = self._by_key.get(key)
            if known is not None:
                self.rec.rec('task_reused', known.key)
                return known
        fut = self._new()
        if key is not None:
            self._by_key[key] = fut
        k = self.ntasks
        self.ntasks += 1
        lat = self._lat('task_lat', k)
        deps = _futures_in((args, kwargs), [])
        self.rec.rec('task_submit', fut.key, tuple(d.key for d in deps))

        def run():
            try:
                a = _resolve(args)
                kw = _resolve(kwargs)
                r = func(*a, **kw)
            except Exception as e:     # noqa
                self.rec.rec('task_done', fut.key, 'exc')
                fut._finish(exc=e)
                return
            self.rec.rec('task_done', fut.key, 'ok')
            fut._finish(result=r)

        def ready():
            self.lp.call_later(lat, run)
        self._when_all(deps, ready)
        return fut

    def scatter(self, data, asynchronous=True, hash=False, **kw):
        k = self.nscatter
        self.nscatter += 1
        lat = self._lat('scatter_lat', k)
        out = self.lp.create_future()
        futs = []
        # like distributed.Client.scatter: collections are unpacked into one future per member (and handed back
        # in a container of the same kind), anything else is one object and comes back as one future
        single = not isinstance(data, (list, tuple, set, frozenset, range)) and not hasattr(data, '__next__')
        for x in ([data] if single else data):
            f = self._new()
            f._finish(result=x)
            futs.append(f)
        self.rec.rec('scatter', tuple(f.key for f in futs))
        if single:
            res = futs[0]
        elif isinstance(data, (tuple, set, frozenset)):
            res = type(data)(futs)
        else:
            res = futs
        self.lp.call_later(lat, lambda: out.done() or out.set_result(res))
        return out

    def gather(self, x, asynchronous=True, **kw):
        k = self.ngather
        self.ngather += 1
        lat = self._lat('gather_lat', k)
        out = self.lp.create_future()
        deps = _futures_in(x, [])

        def finish():
            if out.done():
                return
            try:
                out.set_result(_resolve(x))
            except Exception as e:     # noqa
                out.set_exception(e)
            self.rec.rec('gathered', tuple(d.key for d in deps))

        def ready():
            self.lp.call_later(lat, finish)
        self._when_all(deps, ready)
        return out


_saved = {}


def install(client):
    import streamz.core
    import streamz.dask
    _saved['core'] = streamz.core._dask_default_client
    _saved['dask'] = streamz.dask.default_client
    streamz.core._dask_default_client = lambda: client
    streamz.dask.default_client = lambda: client
    # (from_kafka_batched(dask=True) imports default_client from distributed.client at call time)
    import distributed.client
    _saved['distributed'] = distributed.client.default_client
    distributed.client.default_client = lambda: client


def uninstall():
    import streamz.core
    import streamz.dask
    if _saved:
        streamz.core._dask_default_client = _saved.pop('core')
        streamz.dask.default_client = _saved.pop('dask')
        if 'distributed' in _saved:
            import distributed.client
            distributed.client.default_client = _saved.pop('distributed')
