"""C09 - batched Kafka source over an in-memory fake of confluent_kafka and a
FakeBroker that is the only thing surviving a crash.

Real code under test: FromKafkaBatched.start / poll_kafka / checkpoint_emit /
commit, get_message_batch, RefCounter, and whatever pipeline hangs below.
"""
import asyncio
import copy
import sys
import types

from . import loop as simloop
from .trace import Recorder
from .build import Ctx, build_graph
from .oracles import Violation, Analysis
from .fam_pipeline import Outcome
from . import build as _build

LEVEL = {'C09': 'fault_enumeration'}
CHUNK = {'C09': 4}
COMPONENTS = {
    'real': ['streamz.sources.FromKafkaBatched (start, poll_kafka, checkpoint_emit, commit)', 'streamz.sources.get_message_batch',
             'streamz.core.RefCounter / Stream._emit reference counting', 'downstream nodes and sinks (streamz.core / sinks)',
             'tornado + asyncio scheduling'],
    'stub': ['confluent_kafka client -> simz fake (Consumer, TopicPartition, KafkaException)',
             'Kafka broker -> FakeBroker (partition logs, committed offsets, asynchronous commit application)',
             'selector/clock -> SimLoop; time.sleep in get_message_batch -> virtual stall'],
}
ASSUMPTIONS = {'C09': ['the fake follows the confluent_kafka call contracts streamz uses (committed() -> offset -1001 when none; asynchronous commits applied later, lost if in flight at a crash)',
                       'at-least-once is asserted through its two halves: a commit is issued only for a completely processed batch, and a restarted consumer resumes at the durable committed offset; both for histories in which batches of a partition complete in order (the downstream pipelines generated are order preserving)',
                       'log retention is simulated by raising the low watermark; messages below it are gone for every consumer']}
RULE = {'C09': 'histories (message arrival times per partition, partitions added mid-run, poll interval, batch size limit, '
               'reset policy, npartitions given/discovered, refresh on/off, pre-committed offsets), schedules (consumer '
               'latencies, commit application delay), broker faults (transient committed()/get_watermark_offsets failures) '
               'and, per history, a crash after sampled (thorough: every) trace events followed by a restart of a fresh '
               'consumer against the surviving broker. Non-trivial = at least two batches were emitted; distinct = '
               'distinct (schedule signature, crash point)'}


class KafkaException(Exception):
    pass


class TopicPartition:
    def __init__(self, topic, partition=-1, offset=-1001):
        self.topic = topic
        self.partition = partition
        self.offset = offset

    def __repr__(self):
        return 'TP(%s,%s,%s)' % (self.topic, self.partition, self.offset)


class _Msg:
    def __init__(self, p, off, key, value):
        self._p, self._off, self._k, self._v = p, off, key, value

    def value(self):
        return self._v

    def key(self):
        return self._k

    def error(self):
        return None

    def offset(self):
        return self._off

    def partition(self):
        return self._p


class FakeBroker:
    """The durable world: survives crashes."""
    def __init__(self, nparts):
        self.logs = {p: [] for p in range(nparts)}
        self.low = {}                # p -> low watermark (retention deleted everything below)
        self.committed = {}          # (group, p) -> offset
        self.inflight = []           # asynchronous commits not applied yet
        self.holes = set()           # (p, offset) that hold no deliverable record (compacted away / a transaction marker)
        self.frozen = False          # the consumer process is dead: its writes no longer land

    def append(self, p):
        off = len(self.logs[p])
        self.logs[p].append(('k%d-%d' % (p, off), 'p%d-o%d' % (p, off)))
        return off

    def append_hole(self, p):
        off = len(self.logs[p])
        self.logs[p].append((None, None))
        self.holes.add((p, off))
        return off

    def add_partition(self):
        self.logs[len(self.logs)] = []

    def truncate(self, p, to):
        if p in self.logs:
            self.low[p] = max(self.low.get(p, 0), min(to, len(self.logs[p])))

    def high(self, p):
        return len(self.logs[p])


ENV = {}     # per-incarnation environment of the fake client


class Consumer:
    def __init__(self, params):
        self.params = dict(params)
        self.group = self.params.get('group.id', 'g')
        self.pos = None
        self.assigned = None
        self.closed = False
        self.consumed = False

    # --- used by FromKafkaBatched ---------------------------------------
    def poll(self, timeout=None):
        if self.assigned is None:
            return None
        env = ENV
        n = env['fetch_calls']
        env['fetch_calls'] = n + 1
        if n in env['fetch_fail']:
            env['rec'].rec('fault', 'fetch_fail', self.assigned[0], self.assigned[1])
            env['fired']['fetch_fail'] = env['fired'].get('fetch_fail', 0) + 1
            raise KafkaException('injected: fetch failed')
        b = ENV['broker']
        p, off = self.assigned
        off = max(off, b.low.get(p, 0))       # (offset out of range: the client resets to the log start)
        while off < b.high(p) and (p, off) in b.holes:
            off += 1                          # (offsets without a record are passed over silently)
        if off < b.high(p):
            k, v = b.logs[p][off]
            self.assigned = (p, off + 1)
            self.consumed = True
            return _Msg(p, off, k, v)
        return None

    def get_watermark_offsets(self, tp, timeout=None, cached=False):
        env = ENV
        n = env['wm_calls']
        env['wm_calls'] = n + 1
        if n in env['wm_fail']:
            env['rec'].rec('fault', 'watermark_fail', tp.partition)
            env['fired']['watermark_fail'] = env['fired'].get('watermark_fail', 0) + 1
            raise KafkaException('transient: watermark')
        b = env['broker']
        if tp.partition not in b.logs:
            raise KafkaException('unknown partition')
        hi = b.high(tp.partition)
        lo = b.low.get(tp.partition, 0)
        env['rec'].rec('watermark', tp.partition, lo, hi)
        return (lo, hi)

    def list_topics(self, topic=None, timeout=None):
        b = ENV['broker']
        tm = types.SimpleNamespace(partitions={p: None for p in b.logs})
        ENV['rec'].rec('list_topics', len(b.logs))
        return types.SimpleNamespace(topics={topic: tm})

    def committed(self, tps, timeout=None):
        env = ENV
        n = env['committed_calls']
        env['committed_calls'] = n + 1
        if n < env['committed_fail']:
            env['rec'].rec('fault', 'committed_fail')
            env['fired']['committed_fail'] = env['fired'].get('committed_fail', 0) + 1
            raise KafkaException('transient: committed')
        b = env['broker']
        out = []
        for tp in tps:
            off = b.committed.get((self.group, tp.partition), -1001)
            out.append(TopicPartition(tp.topic, tp.partition, off))
        env['rec'].rec('committed_query', tuple((t.partition, t.offset) for t in out))
        return out

    def commit(self, offsets=None, asynchronous=True, message=None):
        env = ENV
        b = env['broker']
        for tp in offsets:
            env['rec'].rec('commit_call', tp.partition, tp.offset)
            item = (self.group, tp.partition, tp.offset)
            lat = env['commit_lat']
            if lat is None:
                _apply_commit(b, item)
            else:
                b.inflight.append(item)
                env['loop'].call_later(lat, _apply_inflight, b, item)

    def assign(self, tps):
        tp = tps[0]
        self.assigned = (tp.partition, tp.offset)

    def subscribe(self, topics):
        pass

    def unsubscribe(self):
        pass

    def close(self):
        # librdkafka's auto-commit: a consumer configured with enable.auto.commit commits the position it
        # has consumed up to, at the latest when it is closed
        if not self.closed and self.consumed and str(self.params.get('enable.auto.commit', 'true')).lower() == 'true':
            p, pos = self.assigned
            ENV['rec'].rec('auto_commit', p, pos)
            _apply_commit(ENV['broker'], (self.group, p, pos))
        self.closed = True


def _apply_commit(b, item):
    if b.frozen:
        return
    g, p, off = item
    b.committed[(g, p)] = off
    ENV['rec'].rec('commit_applied', p, off)


def _apply_inflight(b, item):
    # one client connection: asynchronous commits reach the broker in the order they were sent
    if item in b.inflight:
        k = b.inflight.index(item)
        ready, b.inflight = b.inflight[:k + 1], b.inflight[k + 1:]
        for it in ready:
            _apply_commit(b, it)


def install_fake_ck():
    m = types.ModuleType('confluent_kafka')
    m.Consumer = Consumer
    m.TopicPartition = TopicPartition
    m.KafkaException = KafkaException
    m.Producer = None
    sys.modules['confluent_kafka'] = m


def simple_env(rec, lp, nmsgs=2):
    """a minimal world for other families (C19): one partition holding nmsgs messages, no faults"""
    install_fake_ck()
    import streamz.sources
    streamz.sources.time = _TimeShim
    b = FakeBroker(1)
    for _ in range(nmsgs):
        b.append(0)
    ENV.clear()
    ENV.update({'broker': b, 'rec': rec, 'loop': lp, 'wm_calls': 0, 'committed_calls': 0, 'wm_fail': set(),
                'committed_fail': 0, 'commit_lat': None, 'fired': {}, 'stalls': 0, 'fetch_calls': 0, 'fetch_fail': set()})
    return b


class _KafkaClock(simloop._Clock):
    """streamz.sources.time: sleep() is a stall of the loop thread (get_message_batch waits for a message)"""
    def sleep(self, d):
        simloop._Clock.sleep(self, d)
        ENV['rec'].rec('stall', 'get_message_batch', 0, d)
        ENV['stalls'] = ENV.get('stalls', 0) + 1
        if ENV['stalls'] > 200:
            raise RuntimeError('get_message_batch keeps waiting for a message that is not there')


_TimeShim = _KafkaClock()


class CrashNow(Exception):
    pass


def _elem(p, lo):
    return p * 1000000 + lo


def run_incarnation(sc, broker, inc, t0, crash_at, pending_msgs):
    """One life of the consumer process.  -> dict(events, ctx, status, t_end, parts, an)"""
    simloop.install_seams()
    install_fake_ck()
    import streamz.sources
    import streamz.core
    from streamz import Stream
    saved_time = {k: getattr(streamz.sources, k) for k in ('time', 'sleep') if hasattr(streamz.sources, k)}
    streamz.sources.time = _TimeShim
    if 'sleep' in saved_time:
        streamz.sources.sleep = _TimeShim.sleep
    lp = simloop.new_loop(sc.get('tiebreak', 'fifo'), sc.get('tiebreak_seed', 0) + inc)
    lp._vt = t0
    lp.step_cap = 300_000
    rec = Recorder(lp)
    f = sc.get('faults') or {}
    broker.frozen = False
    ENV.clear()
    ENV.update({'broker': broker, 'rec': rec, 'loop': lp, 'wm_calls': 0, 'committed_calls': 0,
                'wm_fail': set(f.get('watermark_fail', [])) if inc == 0 else set(f.get('watermark_fail_restart', [])),
                'committed_fail': f.get('committed_fail', 0) if inc == 0 else 0,
                'commit_lat': f.get('commit_lat'), 'fired': {}, 'stalls': 0, 'fetch_calls': 0,
                'fetch_fail': set(f.get('fetch_fail', [])) if inc == 0 else set()})
    sc_graph = {'graph': sc['graph'], 'producers': [], 'faults': {}}
    ctx = Ctx(sc_graph, rec, lp, 'async')
    state = {'status': 'ok', 'crashed': False}
    rec.rec('incarnation', inc, tuple(sorted((p, broker.committed.get(('g', p), -1001)) for p in broker.logs)),
            tuple(sorted((p, broker.high(p)) for p in broker.logs)))

    # traced reference counters for the batches
    base_ref = streamz.core.RefCounter

    class KRef(base_ref):
        def __init__(self, initial=0, cb=None, loop=None):
            base_ref.__init__(self, initial=initial, cb=cb, loop=loop)
            self._elem = None
            self._sched = 0
            real_loop = self.loop
            ref = self

            class _P:
                def add_callback(self_, fn, *a, **k):
                    ref._sched += 1
                    rec.rec('cb_sched', ref._elem, ref.count)
                    return real_loop.add_callback(fn, *a, **k)
            self.loop = _P()

        def retain(self, n=1):
            base_ref.retain(self, n)
            rec.rec('ref', self._elem, 'retain', n, self.count)

        def release(self, n=1):
            self.count -= n
            rec.rec('ref', self._elem, 'release', n, self.count)
            if self.count <= 0 and self.cb:
                self.loop.add_callback(self.cb)
    streamz.sources.RefCounter = KRef

    if crash_at is not None:
        orig_rec = rec.rec

        def rec_crash(kind, *a):
            seq = orig_rec(kind, *a)
            if not state['crashed'] and len(rec.events) >= crash_at:
                state['crashed'] = True
                broker.frozen = True        # nothing the dying process does from now on is durable
                orig_rec('crash', len(rec.events))
            return seq
        rec.rec = rec_crash
        base_run_once = lp._run_once

    keep = []

    async def main():
        from tornado.ioloop import IOLoop
        tl = IOLoop.current()
        params = {'bootstrap.servers': 'fake', 'group.id': 'g'}
        if sc.get('reset'):
            params['auto.offset.reset'] = sc['reset']
        if sc.get('user_auto_commit') is not None:
            # a configuration shared with other Kafka clients: the source must still do its own checkpointing
            params['enable.auto.commit'] = sc['user_auto_commit']
        if sc.get('dask'):
            # from_kafka_batched(dask=True): the batches are fetched by tasks on the (fake) cluster; the user gathers
            from . import fakedask
            fakedask.install(fakedask.FakeClient(lp, rec, sc['dask']))
            stream = Stream.from_kafka_batched('t', params, poll_interval=sc['poll'], npartitions=sc.get('npartitions'),
                                               refresh_partitions=sc.get('refresh', False),
                                               max_batch_size=sc['max_batch'], keys=sc.get('keys', False),
                                               asynchronous=True, dask=True)
            source = stream
            while type(source).__name__ != 'FromKafkaBatched':
                keep.append(source)
                source = source.upstreams[0]
        else:
            stream = Stream.from_kafka_batched('t', params, poll_interval=sc['poll'], npartitions=sc.get('npartitions'),
                                               refresh_partitions=sc.get('refresh', False),
                                               max_batch_size=sc['max_batch'], keys=sc.get('keys', False),
                                               asynchronous=True, loop=tl)
            source = stream.upstreams[0]
        keep.extend([stream, source])
        # observe what the source emits: (partition, low, high) + give the batch's ref its identity
        orig_emit = source._emit

        def src_emit(x, metadata=None):
            p, lo, hi = x[2], x[4], x[5]
            for m in metadata or []:
                if 'ref' in m:
                    m['ref']._elem = _elem(p, lo)
            rec.rec('kafka_emit', p, lo, hi, broker.high(p), broker.low.get(p, 0))
            return orig_emit(x, metadata=metadata)
        source._emit = src_emit
        ctx.external = {0: stream}
        build_graph(ctx, {})
        source.start()
        rec.rec('started')
        # the outside world keeps producing
        last = t0
        for m in pending_msgs:
            if m['t'] > lp.time():
                await asyncio.sleep(m['t'] - lp.time())
            if state['crashed']:
                return
            if m.get('add_partition'):
                broker.add_partition()
                rec.rec('partition_added', len(broker.logs))
            elif 'truncate' in m:
                broker.truncate(m['truncate'], m['to'])
                rec.rec('truncated', m['truncate'], broker.low.get(m['truncate'], 0))
            else:
                if m.get('hole_before'):
                    # (a hole is always followed by a record in the same step: the log never ends in one)
                    rec.rec('hole', m['p'], broker.append_hole(m['p']))
                    ENV['fired']['log_hole'] = ENV['fired'].get('log_hole', 0) + 1
                off = broker.append(m['p'])
                rec.rec('produced', m['p'], off)
            m['done'] = True
        # drain: until everything retained is processed and committed, or no progress
        idle = 0
        for _ in range(sc.get('drain_rounds', 60)):
            mark = len(rec.events)
            await asyncio.sleep(2 * sc['poll'] + sc.get('period', 6))
            # a round in which a fault fired is not a quiet round: liveness is judged once faults have stopped
            new = [e for e in rec.events[mark:] if e[2] in ('kafka_emit', 'commit_applied', 'commit_call', 'fn_end', 'ref', 'fault')]
            if not new:
                break
        rec.rec('quiescent')

    if crash_at is not None:
        def run_once_crash():
            if state['crashed']:
                raise CrashNow()
            base_run_once()
        lp._run_once = run_once_crash
    try:
        with simloop.guard_blocking():
            lp.run_until_complete(main())
    except CrashNow:
        state['status'] = 'crashed'
    except simloop.Deadlock:
        state['status'] = 'deadlock'
    except simloop.Livelock:
        state['status'] = 'livelock'
    except simloop.StepCap:
        state['status'] = 'step_cap'
    except RuntimeError as e:
        if 'keeps waiting' in str(e):
            state['status'] = 'hang'
            rec.rec('hang', str(e))
        else:
            raise
    finally:
        rec.rec = getattr(rec, 'rec')
        t_end = lp._vt
        for name, exc in lp.dead_tasks():
            rec.events.append((len(rec.events), t_end, 'task_exc', name, type(exc).__name__, str(exc)[:80]))
        pend = set((nid, idx) for nid, L in ctx.awaitables.items() for idx, aw in enumerate(L)
                   if aw is not None and not aw.done())
        simloop.dispose_loop(lp)
        from .pipeline import _reset_streamz
        _reset_streamz()
        if sc.get('dask'):
            from . import fakedask
            fakedask.uninstall()
        streamz.sources.RefCounter = base_ref
        for k, v in saved_time.items():
            setattr(streamz.sources, k, v)
    if state['status'] == 'crashed':
        # asynchronous commits still in flight die with the process (or land, if the scenario says so)
        if (sc.get('faults') or {}).get('inflight_lands'):
            for item in list(broker.inflight):
                g, p, off = item
                broker.committed[(g, p)] = off
        broker.inflight = []
    res = types.SimpleNamespace(events=rec.events, ctx=ctx, status='ok' if state['status'] in ('ok', 'crashed') else state['status'],
                                pending_aw=pend, rec=rec, sim_time=t_end)
    return {'res': res, 'status': state['status'], 't_end': t_end, 'fired': dict(ENV.get('fired', {})), 'rec': rec}


def run_history(sc):
    """all incarnations of one scenario -> list of incarnation dicts (+ broker)"""
    nparts = sc['partitions']
    broker = FakeBroker(nparts)
    for p in sc.get('pre', []):
        broker.append(p)
    for p, off in (sc.get('precommitted') or {}).items():
        broker.committed[('g', int(p))] = off
    for p, to in (sc.get('pre_truncate') or {}).items():
        broker.truncate(int(p), to)
    msgs = [dict(m) for m in sorted(sc.get('messages', []), key=lambda m: m['t'])]
    crashes = list(sc.get('crashes') or [])
    incs = []
    t0 = 0.0
    inc = 0
    while True:
        crash_at = crashes[inc] if inc < len(crashes) else None
        pending = [m for m in msgs if not m.get('done')]
        snap = {'committed': dict(broker.committed), 'high': {p: broker.high(p) for p in broker.logs},
                'nparts': len(broker.logs)}
        r = run_incarnation(sc, broker, inc, t0, crash_at, pending)
        r['snap'] = snap
        incs.append(r)
        if r['status'] != 'crashed':
            break
        # while the process is down the world goes on: messages due in the meantime are produced
        t0 = r['t_end'] + sc.get('downtime', 2)
        for p, to in (sc.get('downtime_truncate') or {}).items():
            broker.truncate(int(p), to)
        for m in msgs:
            if not m.get('done') and m['t'] <= t0:
                if m.get('add_partition'):
                    broker.add_partition()
                elif 'truncate' in m:
                    broker.truncate(m['truncate'], m['to'])
                else:
                    broker.append(m['p'])
                m['done'] = True
        inc += 1
        if inc > 3:
            break
    return incs, broker


# ---------------------------------------------------------------------------

def judge(sc, incs, broker):
    V = []
    mb = sc['max_batch']
    reset = sc.get('reset') or 'latest'
    static_parts = sc.get('npartitions') or None
    for i, r in enumerate(incs):
        ev = r['res'].events
        snap = r['snap']
        nstatic = static_parts if static_parts is not None else snap['nparts']
        last_hi = {}
        wm_highs = {}          # partition -> high watermarks the consumer was told, in order
        for e in ev:
            if e[2] == 'watermark':
                wm_highs.setdefault(e[3], []).append(e[5])
                continue
            if e[2] == 'auto_commit':
                V.append(Violation('C09', 'C09.early_commit', e[0],
                                   'incarnation %d: the client library auto-committed offset %d of partition %d when the consumer that fetched '
                                   'the batch was closed (enable.auto.commit reached it as true) - before the batch was processed' % (i, e[4], e[3]),
                                   node_op='from_kafka_batched'))
                return V
            if e[2] in ('task_exc', 'bg_exc') and any('injected' in str(x) for x in e[3:]):
                continue        # the transient fetch failure we injected surfaces in the (un-awaited) emit coroutine
            if e[2] in ('task_exc', 'bg_exc', 'hang'):
                V.append(Violation('C09', 'C09.range', e[0], 'incarnation %d: the source or a forwarder died: %r' % (i, e[3:]), node_op='from_kafka_batched'))
                return V
            if e[2] != 'kafka_emit':
                continue
            p, lo, hi, high_now = e[3], e[4], e[5], e[6]
            low_now = e[7] if len(e) > 7 else 0
            if hi < lo:
                V.append(Violation('C09', 'C09.range', e[0], 'incarnation %d partition %d: empty/inverted range %d..%d' % (i, p, lo, hi), node_op='from_kafka_batched'))
                return V
            if hi - lo + 1 > mb:
                V.append(Violation('C09', 'C09.batch_size', e[0], 'incarnation %d partition %d: range %d..%d exceeds max_batch_size %d' % (i, p, lo, hi, mb), node_op='from_kafka_batched'))
                return V
            if hi >= high_now:
                V.append(Violation('C09', 'C09.watermark', e[0], 'incarnation %d partition %d: range %d..%d passes the high watermark %d' % (i, p, lo, hi, high_now), node_op='from_kafka_batched'))
                return V
            if p in last_hi:
                if lo != last_hi[p] + 1 and not (lo > last_hi[p] + 1 and lo == low_now):     # (a gap below the low watermark: retention)
                    V.append(Violation('C09', 'C09.range', e[0],
                                       'incarnation %d partition %d: range %d..%d follows a range ending at %d (%s)'
                                       % (i, p, lo, hi, last_hi[p], 'overlap' if lo <= last_hi[p] else 'gap'), node_op='from_kafka_batched'))
                    return V
            else:
                c = snap['committed'].get(('g', p), -1001)
                if c >= 0:
                    if lo != max(c, low_now):
                        V.append(Violation('C09', 'C09.start_position', e[0],
                                           'incarnation %d partition %d: committed offset is %d but the first range is %d..%d%s'
                                           % (i, p, c, lo, hi, ' (partition found by refresh)' if p >= nstatic else ''),
                                           node_op='from_kafka_batched', refreshed=p >= nstatic))
                        return V
                elif p < nstatic:
                    if reset == 'earliest' and lo != low_now:
                        V.append(Violation('C09', 'C09.start_position', e[0],
                                           'incarnation %d partition %d: no committed offset, auto.offset.reset=earliest, first range %d..%d' % (i, p, lo, hi),
                                           node_op='from_kafka_batched', refreshed=False))
                        return V
                    if reset == 'latest' and lo < snap['high'].get(p, 0):
                        V.append(Violation('C09', 'C09.start_position', e[0],
                                           'incarnation %d partition %d: no committed offset, auto.offset.reset=latest, %d messages existed when the consumer started, yet the first range is %d..%d'
                                           % (i, p, snap['high'].get(p, 0), lo, hi), node_op='from_kafka_batched', refreshed=False))
                        return V
                    # ... and not later than the end of the log as of the consumer's first look at the partition
                    # (partition 0 is also queried once by start(), so its placement is the 1st or the 2nd answer):
                    # what is produced after the consumer has started belongs to it
                    hs = wm_highs.get(p, [])[:2 if p == 0 else 1]
                    if reset == 'latest' and hs and lo > max(max(hs), low_now):
                        V.append(Violation('C09', 'C09.start_position', e[0],
                                           'incarnation %d partition %d: no committed offset, auto.offset.reset=latest, the log ended at %d when the running consumer first looked, yet the first range is %d..%d (messages produced after the start were skipped)'
                                           % (i, p, max(hs), lo, hi), node_op='from_kafka_batched', refreshed=False))
                        return V
            last_hi[p] = hi
        # content: what get_message_batch delivered is the log slice
        an = r.get('an')
        if an is None:
            g = {'graph': sc['graph'], 'producers': [], 'faults': {}}
            an = r['an'] = Analysis(g, r['res'])
        emits = [e for e in ev if e[2] == 'kafka_emit']
        ins0 = an.ins.get(0, [])
        from .fns import freeze
        for k, i0 in enumerate(ins0):
            if k >= len(emits) or sc.get('dask'):
                break          # (with dask=True the source node hands on futures; the batches are judged at the sinks below)
            p, lo, hi = emits[k][3], emits[k][4], emits[k][5]
            real = [j for j in range(lo, hi + 1) if (p, j) not in broker.holes]
            exp = [broker.logs[p][j][1] for j in real]
            if sc.get('keys'):
                exp = [{'key': broker.logs[p][j][0], 'value': broker.logs[p][j][1]} for j in real]
            if i0.exc or i0.ret is None:
                if i0.outs:
                    V.append(Violation('C09', 'C09.content', i0.seq,
                                       'incarnation %d partition %d range %d..%d: reading the batch failed, yet %r was delivered'
                                       % (i, p, lo, hi, i0.outs[0].value), node_op='from_kafka_batched'))
                    return V
                continue
            for o in i0.outs:
                if o.value != freeze(exp):
                    V.append(Violation('C09', 'C09.content', o.seq,
                                       'incarnation %d partition %d range %d..%d delivered %r, the log holds %r' % (i, p, lo, hi, o.value, exp),
                                       node_op='from_kafka_batched'))
                    return V
        # O2: an offset is committed only when its batch has been completely processed
        for v in an.refcount_scan(want_c04=True, want_c05=False):
            elem = None
            V.append(Violation('C09', 'C09.early_commit', v.seq,
                               'incarnation %d: %s' % (i, v.detail.replace('completion callback', 'commit callback')), **v.info))
            return V
        # O2': whatever holds or does not hold references - at the moment an offset is committed, every consumer has
        #      finished handling every message of the batch that ends there
        def contains(v, msg):
            if isinstance(v, (tuple, list)):
                return any(contains(x, msg) for x in v)
            return v == msg
        sink_ids = [n['id'] for n in sc['graph'] if n['op'] == 'sink']
        # (below flatten the batch's counter travels with its last message only: not judged there)
        # (a Dask pipeline whose sink takes the futures themselves, no gather above it, has "handled" a batch when it
        #  has been given the future: the message text never reaches it, nothing to compare)
        if len(sink_ids) == 1 and not any(n['op'] == 'flatten' for n in sc['graph']) \
                and (not sc.get('dask') or any(n['op'] == 'gather' for n in sc['graph'])) \
                and not any(r['fired'].get('fetch_fail') for r in incs):
            done = [(a.end, a.value) for a in an.acts if a.node == sink_ids[0] and a.end is not None and a.ok]
            for e in ev:
                if e[2] != 'commit_call':
                    continue
                b = [x for x in emits if x[3] == e[3] and x[5] + 1 == e[4]]
                if not b:
                    continue
                lo_, hi_ = b[0][4], b[0][5]
                for j in range(lo_, hi_ + 1):
                    if (e[3], j) in broker.holes:
                        continue
                    msg = broker.logs[e[3]][j][1]
                    if not any(sq < e[0] and contains(v, msg) for sq, v in done):
                        V.append(Violation('C09', 'C09.early_commit', e[0],
                                           'incarnation %d: offset %d of partition %d was committed before the consumer had finished '
                                           'handling message %r of that batch' % (i, e[4], e[3], msg), node_op='from_kafka_batched'))
                        return V
        # commit value: offset committed for a batch is its high + 1
        batches = {(_e[3], _e[5] + 1) for _e in emits}
        for e in ev:
            if e[2] == 'commit_call' and (e[3], e[4]) not in batches:
                V.append(Violation('C09', 'C09.early_commit', e[0],
                                   'incarnation %d: commit of offset %d on partition %d does not correspond to the end of any emitted batch' % (i, e[4], e[3]),
                                   node_op='from_kafka_batched'))
                return V
    # liveness at the very end: everything retained was processed and committed
    last = incs[-1]
    if last['status'] == 'ok' and any(e[2] == 'quiescent' for e in last['res'].events) and not last['res'].pending_aw:
        nstatic = static_parts if (static_parts is not None and not sc.get('refresh')) else len(broker.logs)
        for p in range(min(nstatic, len(broker.logs))):
            c = broker.committed.get(('g', p), -1001)
            h = broker.high(p)
            # a 'latest' consumer with nothing new to read never commits: compare with what it had to read
            first = None
            for r in incs:
                for e in r['res'].events:
                    if e[2] == 'kafka_emit' and e[3] == p:
                        first = e
                        break
                if first:
                    break
            # what a restarted consumer re-reads is defined relative to the committed offset
            # or the configured reset position: with 'latest' and nothing committed it
            # legitimately resumes at the end, so catching up is only demanded otherwise
            c_last = last['snap']['committed'].get(('g', p), -1001)
            anchored = (c_last >= 0) or (reset == 'earliest')
            # the statement's proviso: batches of the partition completed in order
            calls = [e[4] for r in incs for e in r['res'].events if e[2] == 'commit_call' and e[3] == p]
            per_inc_sorted = all(
                [e[4] for e in r['res'].events if e[2] == 'commit_call' and e[3] == p] ==
                sorted(e[4] for e in r['res'].events if e[2] == 'commit_call' and e[3] == p) for r in incs)
            if not per_inc_sorted or any(r['fired'].get('fetch_fail') for r in incs):
                anchored = False
            if h > 0 and first is not None and anchored and max(c, broker.low.get(p, 0)) != h:
                V.append(Violation('C09', 'C09.not_caught_up', len(last['res'].events) - 1,
                                   'at the end partition %d has %d messages, every consumer finished, but the committed offset is %d'
                                   % (p, h, c), node_op='from_kafka_batched'))
                return V
            if (h > 0 and first is None and not anchored and reset == 'latest' and c_last < 0 and c < 0
                    and per_inc_sorted and not any(r['fired'].get('fetch_fail') for r in incs)):
                # 'latest', nothing ever committed, nothing ever delivered: everything produced after the
                # running consumer first looked at the partition is still owed
                hs = [e[5] for e in last['res'].events if e[2] == 'watermark' and e[3] == p][:2 if p == 0 else 1]
                if hs and h > max(max(hs), broker.low.get(p, 0)):
                    V.append(Violation('C09', 'C09.lost_message', len(last['res'].events) - 1,
                                       'partition %d (auto.offset.reset=latest, nothing committed): the log ended at %d when the running consumer first looked and holds %d messages now, none was delivered'
                                       % (p, max(hs), h), node_op='from_kafka_batched'))
                    return V
            if h > 0 and first is None and anchored and max(c if c >= 0 else 0, broker.low.get(p, 0)) < h:
                V.append(Violation('C09', 'C09.lost_message', len(last['res'].events) - 1,
                                   'partition %d holds %d messages from offset %d on that were never delivered' % (p, h, max(c, 0)),
                                   node_op='from_kafka_batched'))
                return V
    return V


def evaluate(prop, sc, want_trace=False):
    incs, broker = run_history(sc)
    out = Outcome()
    out.status = incs[-1]['status']
    out.sim_time = sum(r['t_end'] for r in incs[-1:])
    out.events = sum(len(r['res'].events) for r in incs)
    sig = '|'.join(r['rec'].signature() for r in incs) + '|%r' % (sc.get('crashes'),)
    out.signature = sig
    for r in incs:
        for k, v in r['fired'].items():
            out.faults[k] = out.faults.get(k, 0) + v
    if len(incs) > 1:
        out.faults['crash'] = len(incs) - 1
    nb = sum(1 for r in incs for e in r['res'].events if e[2] == 'kafka_emit')
    if nb >= 2:
        out.probes['batches>=2'] = 1
    if len(incs) > 1:
        out.probes['restarted'] = 1
        if any(e[2] == 'kafka_emit' for e in incs[-1]['res'].events):
            out.probes['batches_after_restart'] = 1
    if any(e[2] == 'commit_applied' for r in incs for e in r['res'].events):
        out.probes['commit_applied'] = 1
    if any(e[2] == 'partition_added' for r in incs for e in r['res'].events):
        out.probes['partition_added'] = 1
    if any(v > 0 for v in broker.low.values()):
        out.probes['log_truncated'] = 1
    out.violations = judge(sc, incs, broker) if out.status not in ('step_cap',) else []
    out.nontrivial = nb >= 2
    if want_trace:
        out.res = types.SimpleNamespace(events=[e for r in incs for e in r['res'].events])
    out.n_events_first = len(incs[0]['res'].events)
    return out


def expand(prop, sc, rng):
    """crash-point enumeration: the fault-free history first, then the same
    history crashed after sampled (thorough: all) events, then restarted"""
    if sc.get('crashes'):
        return [sc]
    base = evaluate(prop, sc)
    n = base.n_events_first
    out = [sc]
    if base.violations:
        return out
    every = sc.get('enumerate_all')
    if every:
        points = list(range(2, n)) if n <= 160 else sorted(set(rng.randrange(2, n) for _ in range(160)))
    else:
        k = min(n - 2, 10)
        points = sorted(set(rng.randrange(2, max(3, n)) for _ in range(k)))
    for cp in points:
        s2 = copy.deepcopy(sc)
        s2['crashes'] = [cp]
        if rng.random() < 0.2:
            s2['crashes'].append(rng.randrange(2, max(3, n // 2)))
        out.append(s2)
    return out


GRID = [0, 0.25, 0.5, 1, 2]


def generate(prop, rng, seed, index, tier):
    big = tier == 'thorough'
    nparts = rng.choice([1, 1, 2, 2, 3, 4])
    refresh = rng.random() < 0.35
    npartitions = None
    if rng.random() < 0.5:
        npartitions = nparts if (not refresh or rng.random() < 0.5) else rng.randrange(1, nparts + 1)
    reset = rng.choice(['earliest', 'earliest', 'latest', 'latest', None])
    pre = [rng.randrange(nparts) for _ in range(rng.randrange(0, 8))]
    msgs = []
    holes = rng.random() < 0.25
    t = 0.0
    for _ in range(rng.randrange(0, 14 if big else 9)):
        t += rng.choice(GRID)
        msgs.append({'t': t, 'p': rng.randrange(nparts)})
        if holes and rng.random() < 0.3:
            msgs[-1]['hole_before'] = True      # an offset without a record (compaction, a transaction marker) right before it
    total = nparts
    if refresh and rng.random() < 0.6:
        t2 = 0.0
        for _ in range(rng.randrange(1, 3)):
            t2 += rng.choice([0.5, 1, 2, 3, 5])
            msgs.append({'t': t2, 'add_partition': True})
            total += 1
            for _ in range(rng.randrange(0, 4)):
                msgs.append({'t': t2 + rng.choice([0.25, 1, 2, 4]), 'p': total - 1})
    pre_truncate = {}
    if rng.random() < 0.2:
        # retention: part of the log is gone before the consumer starts (and more may go while it is down);
        # truncation racing with a running poll is not generated (get_message_batch without timeout would wait
        # for ever for messages that were deleted under it - outside what C09 states)
        for _ in range(rng.randrange(1, 3)):
            pre_truncate[str(rng.randrange(nparts))] = rng.randrange(1, 6)
    precommitted = {}
    if rng.random() < 0.4:
        counts = {}
        for p in pre:
            counts[p] = counts.get(p, 0) + 1
        for p, c in counts.items():
            if rng.random() < 0.6:
                precommitted[str(p)] = rng.randrange(0, c + 1)
    faults = {}
    if rng.random() < 0.3:
        faults['committed_fail'] = rng.randrange(1, 3)
    if rng.random() < 0.35:
        faults['watermark_fail'] = sorted(set(rng.randrange(1, 10) for _ in range(rng.randrange(1, 4))))
    if rng.random() < 0.5:
        faults['commit_lat'] = rng.choice([0, 0.25, 1, 3])
    if rng.random() < 0.3:
        faults['inflight_lands'] = True
    if rng.random() < 0.2:
        # a fetch of the per-batch consumer fails in the middle of some batch
        faults['fetch_fail'] = sorted(set(rng.randrange(0, 12) for _ in range(rng.randrange(1, 3))))
    # downstream pipeline (order preserving)
    shape = rng.choice(['sink', 'sink', 'map', 'buffer', 'flatten', 'rate_limit', 'timed_window', 'buffer_map'])
    graph = [{'id': 0, 'op': 'external'}]
    kind = rng.choice(['sync', 'native', 'tornado', 'future'])
    lat = [rng.choice([None, 0, 0.5, 1, 3]) for _ in range(rng.randrange(1, 3))]

    def sink(up):
        n = {'id': len(graph), 'op': 'sink', 'up': [up], 'kind': kind}
        if kind != 'sync':
            n['lat'] = lat
        graph.append(n)
    if shape == 'sink':
        sink(0)
    elif shape == 'map':
        graph.append({'id': 1, 'op': 'map', 'up': [0], 'fn': ['ident']})
        sink(1)
    elif shape == 'buffer':
        graph.append({'id': 1, 'op': 'buffer', 'up': [0], 'n': rng.choice([1, 2, 3])})
        sink(1)
    elif shape == 'buffer_map':
        graph.append({'id': 1, 'op': 'buffer', 'up': [0], 'n': rng.choice([1, 2])})
        graph.append({'id': 2, 'op': 'map', 'up': [1], 'fn': ['wrap']})
        sink(2)
    elif shape == 'flatten':
        graph.append({'id': 1, 'op': 'flatten', 'up': [0]})
        sink(1)
    elif shape == 'rate_limit':
        graph.append({'id': 1, 'op': 'rate_limit', 'up': [0], 'interval': rng.choice([0.25, 0.5, 1])})
        sink(1)
    elif shape == 'timed_window':
        graph.append({'id': 1, 'op': 'timed_window', 'up': [0], 'interval': rng.choice([0.5, 1, 2])})
        sink(1)
    dask = None
    if rng.random() < 0.15:
        # dask=True: the source feeds a scatter node, the batches are read by tasks on the cluster, the user gathers
        dl = lambda: [rng.choice([0, 0, 0.25, 0.5, 1]) for _ in range(rng.randrange(1, 4))]   # noqa
        dask = {'task_lat': dl(), 'scatter_lat': dl(), 'gather_lat': dl()}
        graph = [{'id': 0, 'op': 'external'}, {'id': 1, 'op': 'gather', 'up': [0]}]
        sink(1)
        faults.pop('fetch_fail', None)
    maxlat = max([x or 0 for x in lat] + [0])
    sc = {'format': 1, 'family': 'kafka', 'property': 'C09', 'seed': seed, 'index': index, 'dask': dask,
          'partitions': nparts, 'npartitions': npartitions, 'refresh': refresh, 'reset': reset,
          'user_auto_commit': rng.choice(['true', True, 'false']) if rng.random() < 0.15 else None,
          'max_batch': rng.choice([1, 2, 3, 5, 10000]), 'keys': rng.random() < 0.2,
          'poll': rng.choice([0.5, 1, 2]), 'pre': pre, 'messages': msgs, 'precommitted': precommitted,
          'faults': faults, 'graph': graph, 'crashes': [], 'pre_truncate': pre_truncate,
          'downtime_truncate': ({str(rng.randrange(nparts)): rng.randrange(1, 8)} if pre_truncate and rng.random() < 0.5 else {}), 'downtime': rng.choice([0.5, 2, 5]),
          'period': maxlat + 3, 'tiebreak': rng.choice(['fifo', 'lifo', 'seeded']),
          'tiebreak_seed': rng.randrange(1000), 'enumerate_all': big and rng.random() < 0.3}
    return sc


def shrink_candidates(sc):
    def clone():
        return copy.deepcopy(sc)
    for key in ('messages', 'pre'):
        L = sc.get(key) or []
        for i in range(len(L) - 1, -1, -1):
            c = clone()
            del c[key][i]
            yield c
    if sc.get('crashes'):
        for i in range(len(sc['crashes'])):
            c = clone()
            del c['crashes'][i]
            yield c
        for i, k in enumerate(sc['crashes']):
            for nk in (k // 2, k - 1):
                if nk >= 2 and nk != k:
                    c = clone()
                    c['crashes'][i] = nk
                    yield c
    f = sc.get('faults') or {}
    for key in list(f):
        c = clone()
        del c['faults'][key]
        yield c
    for key in ('pre_truncate', 'downtime_truncate'):
        for k in list(sc.get(key) or {}):
            c = clone()
            del c[key][k]
            yield c
    if sc.get('precommitted'):
        for k in list(sc['precommitted']):
            c = clone()
            del c['precommitted'][k]
            yield c
    if sc['partitions'] > 1:
        used = set([m.get('p', 0) for m in sc.get('messages', [])] + list(sc.get('pre', [])) + [int(k) for k in (sc.get('precommitted') or {})])
        if max(used or [0]) < sc['partitions'] - 1 and (sc.get('npartitions') or 0) < sc['partitions']:
            c = clone()
            c['partitions'] -= 1
            yield c
    if len(sc['graph']) > 2:
        c = clone()
        c['graph'] = [{'id': 0, 'op': 'external'}, {'id': 1, 'op': 'sink', 'up': [0], 'kind': sc['graph'][-1].get('kind', 'sync'),
                                                  'lat': sc['graph'][-1].get('lat')}]
        yield c
    g = sc['graph'][-1]
    if g.get('kind', 'sync') != 'sync':
        c = clone()
        c['graph'][-1] = {'id': g['id'], 'op': 'sink', 'up': g['up'], 'kind': 'sync'}
        yield c
    for m_i, m in enumerate(sc.get('messages', [])):
        if m['t']:
            c = clone()
            c['messages'][m_i]['t'] = 0
            yield c
    if sc.get('keys'):
        c = clone()
        c['keys'] = False
        yield c
    if sc.get('tiebreak') != 'fifo':
        c = clone()
        c['tiebreak'] = 'fifo'
        yield c
