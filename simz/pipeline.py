"""Executor of the pipeline family: scenario (JSON) -> trace.

Executing a scenario draws no random numbers and reads no real clock; the
result is a pure function of the scenario and the code under /repo.
"""
import asyncio

from . import loop as simloop
from .trace import Recorder
from .build import Ctx, build_graph, make_traced_ref, mdids, needs_loop
from .fns import freeze, tokens


class RunResult:
    @property
    def digest(self):
        return self.rec.digest()

    @property
    def signature(self):
        return self.rec.signature()

    def __init__(self):
        self.events = []
        self.ctx = None
        self.status = 'ok'          # ok | deadlock | livelock | step_cap
        self.final_counts = {}
        self.sim_time = 0.0
        self.iterations = 0
        self.spin_jumps = 0
        self.rec = None
        self.build_error = None


def scenario_period(sc):
    m = 1.0
    for n in sc['graph']:
        for k in ('interval', 'timeout'):
            if n.get(k):
                m = max(m, float(n[k]))
        for v in n.get('lat') or []:
            if v:
                m = max(m, float(v))
    for s in (sc.get('faults') or {}).get('stalls', []):
        m = max(m, float(s['dur']))
    for p in sc['producers']:
        for it in p['items']:
            if it.get('gap'):
                m = max(m, float(it['gap']))
    d = sc.get('dask') or {}
    # (an element crosses the cluster in three steps - scatter, task, gather - without any event in between)
    m = max(m, sum(max([float(v) for v in d.get(k) or [0]]) for k in ('scatter_lat', 'task_lat', 'gather_lat')))
    return 2 * m + 1


def make_md(ctx, item, loop_obj, elem):
    k = item.get('md', 0)
    if not k:
        return None
    md = []
    for j in range(k):
        d = {'_e': elem, '_j': j}
        if item.get('ref', True) and j == 0:
            d['ref'] = make_traced_ref(ctx, elem, loop_obj)
        md.append(d)
    return md


def describe_exc(e):
    from .fns import InjectedFailure
    if isinstance(e, InjectedFailure):
        return ('injected', e.node, e.call)
    return (type(e).__name__, str(e)[:80])


def _do_emit(ctx, src_node, entry, pid, k, item, loop_obj):
    """One producer step up to the return of emit(); -> awaitable or None"""
    rec = ctx.rec
    if 'flush' in item:
        rec.rec('flush_call', item['flush'])
        try:
            ctx.nodes[item['flush']].flush()
        except Exception as e:     # noqa
            rec.rec('flush_exc', item['flush'], describe_exc(e))
        else:
            rec.rec('flush_ret', item['flush'])
        return None, False
    if 'restart' in item:
        # start() called (again) on a node of a pipeline that is already running: it travels upstream through
        # every node; what is flowing must neither be lost nor change its order
        rec.rec('restart_call', item['restart'], item.get('how', 'start'))
        try:
            if item.get('how') == 'stop_start':
                ctx.nodes[item['restart']].stop()
            ctx.nodes[item['restart']].start()
        except Exception as e:     # noqa
            rec.rec('restart_exc', item['restart'], describe_exc(e))
        return None, False
    value = item['v']
    md = make_md(ctx, item, loop_obj, value)
    root = (pid, k)
    ctx.entry_pending[entry].append(root)
    rec.rec('emit_call', pid, k, entry, value, mdids(md))
    try:
        if md is not None:
            r = src_node.emit(value, metadata=md)
        else:
            r = src_node.emit(value)
    except Exception as e:     # noqa
        if root in ctx.entry_pending[entry]:
            ctx.entry_pending[entry].remove(root)
        rec.rec('emit_done', pid, k, 'exc', describe_exc(e))
        return None, True
    rec.rec('emit_ret', pid, k)
    return r, False


def run_async(sc, max_rounds=120):
    res = RunResult()
    lp = simloop.new_loop(sc.get('tiebreak', 'fifo'), sc.get('tiebreak_seed', 0))
    lp.step_cap = sc.get('step_cap', 400_000)
    rec = Recorder(lp)
    ctx = Ctx(sc, rec, lp, 'async')
    res.ctx = ctx
    period = scenario_period(sc)
    state = {'producers_done': 0}

    async def watch(pid, k, aw):
        try:
            await aw
        except Exception as e:     # noqa
            rec.rec('emit_done', pid, k, 'exc', describe_exc(e))
        else:
            rec.rec('emit_done', pid, k, 'ok')

    async def producer(pid, p, tl, pre=None):
        entry = p['entry']
        src = ctx.nodes[entry]
        if p.get('start'):
            await asyncio.sleep(p['start'])
        for k, item in enumerate(p['items']):
            if k == 0 and pre is not None:
                r, failed = pre        # (emitted right after the graph was built, before the loop had a turn)
            else:
                if item.get('gap'):
                    await asyncio.sleep(item['gap'])
                r, failed = _do_emit(ctx, src, entry, pid, k, item, tl)
            if r is None:
                if not failed and 'flush' not in item and 'restart' not in item:
                    rec.rec('emit_done', pid, k, 'ok')
                continue
            if p.get('await', True):
                await watch(pid, k, r)
            else:
                asyncio.ensure_future(watch(pid, k, r))
        state['producers_done'] += 1

    async def main():
        from tornado.ioloop import IOLoop
        tl = IOLoop.current()
        if sc.get('dask') is not None:
            from . import fakedask
            fakedask.install(fakedask.FakeClient(lp, rec, sc['dask']))
        build_graph(ctx, {'asynchronous': True})
        async def attach_later(n):
            await asyncio.sleep(n['attach_at'])
            build_graph(ctx, {'asynchronous': True}, late=n['id'])
        for n in sc['graph']:
            if 'attach_at' in n:
                asyncio.ensure_future(attach_later(n))
        pre = {}
        if sc.get('emit_at_once'):
            # the first element is pushed in the same step that built the graph - before any callback the
            # nodes scheduled at construction (tick loops, drain loops) has run
            for pid, p in enumerate(sc['producers']):
                it = p['items'][0] if p['items'] else None
                if it is not None and not p.get('start') and not it.get('gap') and 'flush' not in it:
                    pre[pid] = _do_emit(ctx, ctx.nodes[p['entry']], p['entry'], pid, 0, it, tl)
        tasks = [asyncio.ensure_future(producer(pid, p, tl, pre.get(pid)))
                 for pid, p in enumerate(sc['producers'])]
        rounds = 0
        settled = False
        while rounds < max_rounds:
            rounds += 1
            mark = len(rec.events)
            await asyncio.sleep(period)
            new = rec.events[mark:]
            if not any(_progress(ev) for ev in new):
                # a slow drain (one element per interval behind empty batches) is still progress
                if rounds < 80 and _backlog(ctx, rec):
                    continue
                settled = True
                break
        # a pipeline that keeps re-emitting data on every tick never settles
        rec.rec('quiescent' if settled else 'restless', rounds, state['producers_done'])

    try:
        with simloop.guard_blocking():
            lp.run_until_complete(main())
    except simloop.Deadlock:
        res.status = 'deadlock'
        rec.rec('deadlock')
    except simloop.Livelock:
        res.status = 'livelock'
        rec.rec('livelock')
    except simloop.StepCap:
        res.status = 'step_cap'
    finally:
        _finish(res, rec, ctx, lp)
        simloop.dispose_loop(lp)
        _reset_streamz()
        if sc.get('dask') is not None:
            from . import fakedask
            fakedask.uninstall()
    return res


def _backlog(ctx, rec):
    """token-carrying arrivals at a FIFO node that it has not emitted yet"""
    fifo = [nid for nid, sp in ctx.spec.items() if sp['op'] in ('buffer', 'delay', 'rate_limit')]
    if not fifo:
        return False
    cnt = {nid: 0 for nid in fifo}
    for ev in rec.events:
        if ev[2] == 'in' and ev[3] in cnt and (ev[6] or tokens(ev[5])):
            cnt[ev[3]] += 1
        elif ev[2] == 'out' and ev[3] in cnt and (ev[5] or tokens(ev[4])):
            cnt[ev[3]] -= 1
    return any(v > 0 for v in cnt.values())


def _progress(ev):
    k = ev[2]
    if k == 'in':
        return bool(ev[6]) or bool(tokens(ev[5]))
    if k == 'out':
        return bool(ev[5]) or bool(tokens(ev[4]))
    if k == 'fn_start':
        return bool(tokens(ev[6])) or bool(ev[7])
    if k in ('out_ret', 'in_ret', 'fn_end', 'quiescent'):
        return False
    return True


def _finish(res, rec, ctx, lp):
    rec.event_cap = 10 ** 9          # closing records are always written
    if lp is not None:
        for name, exc in lp.dead_tasks():
            d = describe_exc(exc)
            rec.rec('task_exc', name, d[0], d[1] if len(d) > 1 else None)
    for elem, r in sorted(ctx.refs.items()):
        rec.rec('ref_final', elem, r.count, r._sched)
        res.final_counts[elem] = r.count
    # snapshot before the loop is torn down (cancellation marks futures done)
    res.pending_aw = set((nid, idx) for nid, L in ctx.awaitables.items()
                         for idx, aw in enumerate(L) if aw is not None and not aw.done())
    res.events = rec.events
    res.sim_time = lp._vt if lp is not None else 0.0
    res.iterations = lp.iterations if lp is not None else 0
    res.spin_jumps = lp.spin_jumps if lp is not None else 0
    res.rec = rec


def _reset_streamz():
    import streamz.sinks
    import streamz.core
    getattr(streamz.sinks, '_global_sinks', set()).clear()
    del getattr(streamz.core, '_io_loops', [])[:]
    for attr in ('asynchronous',):
        if hasattr(streamz.core.thread_state, attr):
            try:
                delattr(streamz.core.thread_state, attr)
            except AttributeError:
                pass


def run_loopless(sc):
    """Synchronous pipelines without any event loop: emit() runs the whole
    pipeline on the caller's stack.  Several producers are interleaved in the
    order of their cumulative gaps (ties by producer index)."""
    res = RunResult()
    # like a fresh main thread: a current event loop exists but never runs
    idle = simloop.new_loop()
    asyncio.set_event_loop(idle)
    simloop._current[0] = None
    rec = Recorder(None)
    ctx = Ctx(sc, rec, None, 'loopless')
    res.ctx = ctx
    build_graph(ctx, {})
    steps = []
    for pid, p in enumerate(sc['producers']):
        t = p.get('start', 0) or 0
        for k, item in enumerate(p['items']):
            t += item.get('gap', 0) or 0
            steps.append((t, pid, k))
    steps.sort()
    for t, pid, k in steps:
        p = sc['producers'][pid]
        item = p['items'][k]
        r, failed = _do_emit(ctx, ctx.nodes[p['entry']], p['entry'], pid, k, item, None)
        if not failed and 'flush' not in item and 'restart' not in item:
            rec.rec('emit_done', pid, k, 'ok')
        rec.rec('idle')
    rec.rec('quiescent', 0, len(sc['producers']))
    _finish(res, rec, ctx, None)
    simloop.dispose_loop(idle)
    _reset_streamz()
    return res


def run_scenario(sc):
    simloop.install_seams()
    mode = sc.get('mode', 'async')
    if mode == 'loopless':
        if needs_loop(sc['graph']):
            raise ValueError('loopless scenario with loop-requiring nodes')
        return run_loopless(sc)
    if mode == 'threaded':
        from .threaded import run_threaded
        return run_threaded(sc)
    return run_async(sc)
