"""Seeded search driver: generate -> execute -> judge -> shrink -> replay file -> evidence.

One integer (VERIF_SEED) decides everything: scenario ``index`` of property
``P`` is generated from ``random.Random("<seed>:<P>:<index>")`` and executing a
scenario draws nothing else.  Workers are forked processes; each run gets a
fresh SimLoop and fresh fakes, so a run does not depend on its neighbours.
"""
import concurrent.futures as cf
import faulthandler
import signal
import json
import multiprocessing
import os
import random
import subprocess
import sys
import time
import traceback

_REAL_TIME = time.time      # (workers replace time.time by the virtual clock)

VERIF = os.path.dirname(os.path.dirname(os.path.abspath(__file__)))

PIPELINE_PROPS = ['C01', 'C02', 'C03', 'C04', 'C05', 'C08', 'C10', 'C13', 'C14', 'C16']


def family_of(prop):
    if prop in PIPELINE_PROPS:
        from . import fam_pipeline
        return fam_pipeline
    if prop == 'C09':
        from . import fam_kafka
        return fam_kafka
    if prop == 'C12':
        from . import fam_aggstate
        return fam_aggstate
    if prop == 'C15':
        from . import fam_topology
        return fam_topology
    if prop == 'C17':
        from . import fam_files
        return fam_files
    if prop == 'C18':
        from . import fam_lifecycle
        return fam_lifecycle
    if prop == 'C19':
        from . import fam_binding
        return fam_binding
    if prop == 'C20':
        from . import fam_dask
        return fam_dask
    raise SystemExit('unknown property %s' % prop)


def rng_for(seed, prop, index):
    return random.Random('%d:%s:%d' % (seed, prop, index))


# ---------------------------------------------------------------------------
# known findings

def load_known():
    p = os.path.join(VERIF, 'known_findings.json')
    if not os.path.exists(p):
        return []
    with open(p) as f:
        return json.load(f).get('findings', [])


def match_known(known, prop, vj):
    """-> the *known* (not fixed) entry a violation (json form) matches, or None"""
    for k in known:
        if k.get('status') != 'known' or k.get('property') != prop:
            continue
        if k.get('oracle') and vj['oracle'] not in ([k['oracle']] if isinstance(k['oracle'], str) else k['oracle']):
            continue
        ok = True
        for key, val in (k.get('match') or {}).items():
            have = vj.get('info', {}).get(key)
            if isinstance(val, list):
                if have not in val:
                    ok = False
            elif have != val:
                ok = False
        if ok:
            return k
    return None


# ---------------------------------------------------------------------------
# worker

SCENARIO_WALL_LIMIT = 30


class _WallTimeout(BaseException):
    pass


def _on_alarm(signum, frame):
    raise _WallTimeout()


def _work(args):
    prop, seed, tier, start, count, deadline = args
    faulthandler.dump_traceback_later(600, exit=True)
    signal.signal(signal.SIGALRM, _on_alarm)
    fam = family_of(prop)
    agg = {'n': 0, 'runs': 0, 'sigs': {}, 'probes': {}, 'sim_time': 0.0, 'events': 0,
           'status': {}, 'violations': [], 'harness': [], 'samples': [], 'faults': {}, 'nontrivial': 0,
           'modes': {}}
    hung = False
    for index in range(start, start + count):
        if _REAL_TIME() > deadline or hung:
            break          # (after a hang this chunk is given up: whatever hung may have left its mark on the process)
        rng = rng_for(seed, prop, index)
        try:
            sc = fam.generate(prop, rng, seed, index, tier)
            variants = fam.expand(prop, sc, rng) if hasattr(fam, 'expand') else [sc]
        except Exception:
            agg['harness'].append({'index': index, 'where': 'generate', 'tb': traceback.format_exc()[-1500:]})
            continue
        agg['n'] += 1
        for vi, s2 in enumerate(variants):
            if vi and _REAL_TIME() > deadline + 20:
                break          # (the variants of one scenario can be many: crash points, failing invocations)
            try:
                signal.setitimer(signal.ITIMER_REAL, SCENARIO_WALL_LIMIT)
                try:
                    out = fam.evaluate(prop, s2)
                finally:
                    signal.setitimer(signal.ITIMER_REAL, 0)
            except _WallTimeout:
                # step caps bound loop iterations, not the work inside one callback: a scenario of a dozen
                # elements that keeps the CPU busy for a minute is not going to finish
                if len(agg['violations']) < 12:
                    agg['violations'].append({'index': index, 'scenario': s2, 'violations': [{
                        'property': prop, 'oracle': '%s.hang' % prop, 'event': 0, 'info': {},
                        'detail': 'the scenario was still running after %d s of wall-clock time (virtual time does not '
                                  'advance inside a callback: unbounded work or a real hang)' % SCENARIO_WALL_LIMIT}]})
                hung = True
                break
            except Exception:
                agg['harness'].append({'index': index, 'where': 'evaluate', 'tb': traceback.format_exc()[-1500:],
                                       'scenario': s2})
                continue
            agg['runs'] += 1 + getattr(out, 'extra_runs', 0)
            agg['sim_time'] += out.sim_time
            agg['events'] += out.events
            agg['status'][out.status] = agg['status'].get(out.status, 0) + 1
            m = s2.get('mode') or s2.get('family')
            agg['modes'][m] = agg['modes'].get(m, 0) + 1
            for k, v in out.probes.items():
                agg['probes'][k] = agg['probes'].get(k, 0) + v
            for k, v in out.faults.items():
                agg['faults'][k] = agg['faults'].get(k, 0) + v
            if out.nontrivial:
                agg['nontrivial'] += 1
                agg['sigs'][out.signature] = 1
            if len(agg['samples']) < 1 and out.nontrivial and vi == len(variants) - 1:
                agg['samples'].append(s2)
            if out.violations and len(agg['violations']) < 12:
                agg['violations'].append({'index': index, 'scenario': s2,
                                          'violations': [v.to_json() for v in out.violations]})
    agg['sigs'] = list(agg['sigs'])
    return agg


# ---------------------------------------------------------------------------
# shrinking

def shrink(prop, sc, target, known, budget=300, wall=60.0):
    """Greedy structural minimisation keeping the same violation class
    (property, oracle id, and the same known-finding classification)."""
    fam = family_of(prop)
    t0 = _REAL_TIME()
    want_known = match_known(known, prop, target)
    want_id = want_known['id'] if want_known else None

    def still(s2):
        try:
            out = fam.evaluate(prop, s2)
        except Exception:
            return None
        for v in out.violations:
            vj = v.to_json()
            if vj['oracle'] != target['oracle']:
                continue
            k = match_known(known, prop, vj)
            if (k['id'] if k else None) == want_id:
                return vj
        return None

    cur = sc
    cur_v = target
    used = 0
    improved = True
    if target['oracle'].endswith('.hang'):
        return cur, cur_v, 0
    if still(sc) is None:
        # the violation does not show when the scenario is run on its own in this process (it needed what an
        # earlier scenario left behind in the worker): nothing to minimise against
        return cur, cur_v, 1
    while improved and used < budget and _REAL_TIME() - t0 < wall:
        improved = False
        for cand in fam.shrink_candidates(cur):
            if used >= budget or _REAL_TIME() - t0 > wall:
                break
            used += 1
            vj = still(cand)
            if vj is not None:
                cur, cur_v = cand, vj
                improved = True
                break
    return cur, cur_v, used


def replay_file(path):
    """Re-execute a replay file in this process; -> list of violation json"""
    with open(path) as f:
        sc = json.load(f)
    prop = sc['property']
    fam = family_of(prop)
    signal.signal(signal.SIGALRM, _on_alarm)
    signal.setitimer(signal.ITIMER_REAL, SCENARIO_WALL_LIMIT)
    try:
        out = fam.evaluate(prop, sc)
    except _WallTimeout:
        import types
        out = types.SimpleNamespace(violations=[], status='hang', events=0, res=None)
        return sc, [{'property': prop, 'oracle': '%s.hang' % prop, 'event': 0, 'info': {},
                     'detail': 'still running after %d s of wall-clock time' % SCENARIO_WALL_LIMIT}], out
    finally:
        signal.setitimer(signal.ITIMER_REAL, 0)
    return sc, [v.to_json() for v in out.violations], out


def replay_in_fresh_process(path):
    env = dict(os.environ)
    env['PYTHONHASHSEED'] = '0'
    try:
        r = subprocess.run([sys.executable, os.path.join(VERIF, 'check.py'), '--replay', path, '--quiet'],
                           capture_output=True, text=True, timeout=300, env=env, cwd=VERIF)
    except subprocess.TimeoutExpired:
        return False, 'timeout'
    return r.returncode == 1 and 'REPRODUCED' in r.stdout, r.stdout[-400:] + r.stderr[-400:]


# ---------------------------------------------------------------------------

def run_check(prop, tier, seed, budget_s, workers=None, max_runs=None, write_evidence=True):
    t0 = _REAL_TIME()
    fam = family_of(prop)
    known = load_known()
    workers = workers or min(16, os.cpu_count() or 4)
    deadline = t0 + budget_s
    chunk = getattr(fam, 'CHUNK', {}).get(prop, 40)
    total = {'n': 0, 'runs': 0, 'sigs': set(), 'probes': {}, 'sim_time': 0.0, 'events': 0, 'status': {},
             'violations': [], 'harness': [], 'samples': [], 'faults': {}, 'nontrivial': 0, 'modes': {}}
    ctx = multiprocessing.get_context('fork')
    next_index = 0
    dead_worker = False
    with cf.ProcessPoolExecutor(max_workers=workers, mp_context=ctx) as ex:
        pending = set()
        while True:
            while len(pending) < workers * 2 and _REAL_TIME() < deadline and \
                    (max_runs is None or next_index < max_runs):
                pending.add(ex.submit(_work, (prop, seed, tier, next_index, chunk, deadline)))
                next_index += chunk
            if not pending:
                break
            done, pending = cf.wait(pending, timeout=30, return_when=cf.FIRST_COMPLETED)
            for fu in done:
                try:
                    a = fu.result()
                except Exception as e:     # a worker died
                    dead_worker = True
                    total['harness'].append({'where': 'worker', 'tb': repr(e)})
                    continue
                total['n'] += a['n']
                total['runs'] += a['runs']
                total['sigs'].update(a['sigs'])
                total['sim_time'] += a['sim_time']
                total['events'] += a['events']
                total['nontrivial'] += a['nontrivial']
                for key in ('probes', 'status', 'faults', 'modes'):
                    for k, v in a[key].items():
                        total[key][k] = total[key].get(k, 0) + v
                total['violations'].extend(a['violations'])
                total['harness'].extend(a['harness'])
                if len(total['samples']) < 2:
                    total['samples'].extend(a['samples'])
            if _REAL_TIME() > deadline + 120:
                break
    search_wall = _REAL_TIME() - t0

    # ---- judge, shrink, write replay files ---------------------------------
    rdir = 'replays' if write_evidence else os.path.join('replays', 'selftest')
    os.makedirs(os.path.join(VERIF, rdir), exist_ok=True)
    classes = {}
    alternatives = {}     # further instances of a class, tried when the first one does not replay in a fresh process
    for item in sorted(total['violations'], key=lambda it: it['index']):
        for vj in item['violations']:
            k = match_known(known, prop, vj)
            cls = (vj['oracle'], k['id'] if k else None, vj.get('info', {}).get('node_op'))
            if cls not in classes:
                classes[cls] = (item, vj, k)
                alternatives[cls] = []
            elif len(alternatives[cls]) < 48:
                alternatives[cls].append((item, vj))
    lines = []
    new_violations = 0
    known_hits = {}
    shrink_stats = []
    for cls in sorted(classes, key=lambda c: (c[1] is not None, str(c))):
        item, vj, k = classes[cls]
        if k is not None:
            known_hits.setdefault(k['id'], (k, item, vj))
            continue
        if new_violations >= 4:
            new_violations += 1
            continue
        def minimise(item_, vj_):
            sc_, v_, used_ = shrink(prop, item_['scenario'], vj_, known)
            sc_ = dict(sc_)
            sc_['property'] = prop
            sc_['expect'] = {'oracle': v_['oracle'], 'event': v_['event'], 'detail': v_['detail']}
            path_ = os.path.join(VERIF, rdir, '%s-%d-%d-%s.json' % (prop, seed, item_['index'], v_['oracle'].split('.')[-1]))
            with open(path_, 'w') as f:
                json.dump(sc_, f, indent=1, sort_keys=True)
            ok_, msg_ = replay_in_fresh_process(path_)
            return v_, used_, path_, ok_, msg_

        v_min, used, path, ok, msg = minimise(item, vj)
        if not ok:
            # the violation needed something the worker process had done before (state leaking from one run to
            # the next - a finding in itself): look for an instance of the class that a fresh process reproduces
            # from its file alone (the unshrunk scenarios are tried first, that is cheap)
            def try_raw(numbered):
                num, (item2, vj2) = numbered
                raw = dict(item2['scenario'])
                raw['property'] = prop
                raw['expect'] = {'oracle': vj2['oracle'], 'event': vj2['event'], 'detail': vj2['detail']}
                tmp_path = os.path.join(VERIF, rdir, '%s-%d-%d-candidate%d.json' % (prop, seed, item2['index'], num))
                with open(tmp_path, 'w') as f:
                    json.dump(raw, f, indent=1, sort_keys=True)
                try:
                    return replay_in_fresh_process(tmp_path)[0]
                finally:
                    os.remove(tmp_path)
            alts = alternatives.get(cls, [])
            with cf.ThreadPoolExecutor(max_workers=16) as tp:
                flags = list(tp.map(try_raw, enumerate(alts)))
            for (item2, vj2), ok2 in zip(alts, flags):
                if ok2:
                    v2, used2, path2, ok3, msg3 = minimise(item2, vj2)
                    if ok3:
                        item, v_min, used, path, ok, msg = item2, v2, used2, path2, ok3, msg3
                        break
        shrink_stats.append({'index': item['index'], 'oracle': v_min['oracle'], 'shrink_runs': used,
                             'replay_reproduced': ok})
        new_violations += 1
        lines.append('VIOLATION property=%s replay=%s' % (prop, path))
        lines.append('  oracle=%s %s%s' % (v_min['oracle'], v_min['detail'][:300],
                                          '' if ok else '  [WARNING: fresh-process replay did not reproduce: %s]' % msg[-200:]))
    for fid, (k, item, vj) in sorted(known_hits.items()):
        lines.append('KNOWN-FINDING: property=%s %s %s' % (prop, fid, k.get('what_fails', '')))
    wall = _REAL_TIME() - t0

    # ---- evidence ------------------------------------------------------------
    samples = []
    for s in total['samples'][:2]:
        samples.append(s)
    if not samples:
        samples = [{'note': 'no non-trivial sample in this run'}]
    ev = {
        'property_id': prop,
        'tier': tier,
        'seed': seed,
        'level': getattr(fam, 'LEVEL', {}).get(prop, 'exploration'),
        'coverage': {
            'evaluations': total['runs'],
            'scenarios_generated': total['n'],
            'distinct_nontrivial': len(total['sigs']),
            'rule': getattr(fam, 'RULE', {}).get(prop, DEFAULT_RULE),
            'samples': samples,
            'nontrivial_runs': total['nontrivial'],
            'probes_reached': dict(sorted(total['probes'].items())),
            'faults_fired': dict(sorted(total['faults'].items())),
            'run_status': total['status'],
            'modes': total['modes'],
            'simulated_seconds': round(total['sim_time'], 3),
            'trace_events': total['events'],
            'runs_per_hour': int(total['runs'] / max(search_wall, 1e-6) * 3600),
            'workers': workers,
            'harness_errors': len(total['harness']),
            'shrink': shrink_stats,
            'known_findings_hit': sorted(known_hits),
            'components': getattr(fam, 'COMPONENTS', {}),
            'exhaustive': False,
        },
        'assumptions': getattr(fam, 'ASSUMPTIONS', {}).get(prop, []),
        'wall_s': round(wall, 2),
        'violations': new_violations,
    }
    if write_evidence:
        os.makedirs(os.path.join(VERIF, 'evidence'), exist_ok=True)
        with open(os.path.join(VERIF, 'evidence', '%s.json' % prop), 'w') as f:
            json.dump(ev, f, indent=1, sort_keys=True, default=str)

    print('VERIF_SEED=%d property=%s tier=%s scenarios=%d runs=%d distinct_nontrivial=%d sim_s=%.0f wall=%.1fs runs/h=%d'
          % (seed, prop, tier, total['n'], total['runs'], len(total['sigs']), total['sim_time'], wall,
             ev['coverage']['runs_per_hour']))
    print('probes: %s' % json.dumps(ev['coverage']['probes_reached'], sort_keys=True))
    if total['faults']:
        print('faults fired: %s' % json.dumps(ev['coverage']['faults_fired'], sort_keys=True))
    for ln in lines:
        print(ln)
    if total['harness'] or dead_worker:
        h = total['harness'][0]
        print('HARNESS-ERROR (%d): %s' % (len(total['harness']), h.get('tb', '')[-1200:]))
        if h.get('scenario'):
            p = os.path.join(VERIF, 'replays', 'harness-%s-%d.json' % (prop, seed))
            with open(p, 'w') as f:
                json.dump(h['scenario'], f)
            print('  scenario saved to %s' % p)
        return 2 if not new_violations else 1
    if total['runs'] == 0:
        print('HARNESS-ERROR: nothing was executed')
        return 2
    return 1 if new_violations else 0


DEFAULT_RULE = ('scenarios are drawn from random.Random("<VERIF_SEED>:<property>:<index>") by the family '
                'generator (typed pipeline graph, producers, gaps, latencies, intervals, tie policy, faults); '
                'a run is non-trivial when it reached at least one probe of the property; distinct = distinct '
                'schedule signatures (hash of the sequence of (event kind, node)) among non-trivial runs')


def main(argv):
    import argparse
    ap = argparse.ArgumentParser()
    ap.add_argument('prop', nargs='?')
    ap.add_argument('--tier', default=os.environ.get('VERIF_TIER', 'quick'))
    ap.add_argument('--seed', type=int, default=None)
    ap.add_argument('--budget', type=float, default=None)
    ap.add_argument('--workers', type=int, default=None)
    ap.add_argument('--max-runs', type=int, default=None)
    ap.add_argument('--replay')
    ap.add_argument('--quiet', action='store_true')
    ap.add_argument('--trace', action='store_true')
    ap.add_argument('--no-evidence', action='store_true')
    a = ap.parse_args(argv)
    if a.replay:
        sc, vs, out = replay_file(a.replay)
        exp = sc.get('expect')
        hit = [v for v in vs if not exp or v['oracle'] == exp['oracle']]
        if a.trace and hasattr(out, 'res'):
            pass
        if not a.quiet:
            for v in vs:
                print('%s %s @%s: %s' % (v['property'], v['oracle'], v['event'], v['detail']))
        if a.trace:
            fam = family_of(sc['property'])
            o2 = fam.evaluate(sc['property'], sc, want_trace=True)
            from .trace import fmt_event
            for e in o2.res.events:
                print(fmt_event(e)[:220])
        if hit:
            same = (not exp) or any(v['event'] == exp.get('event') for v in hit)
            print('REPRODUCED property=%s oracle=%s%s' % (sc['property'], hit[0]['oracle'], '' if same else ' (different event index)'))
            return 1
        print('NOT-REPRODUCED property=%s' % sc['property'])
        return 0
    seed = a.seed if a.seed is not None else int(os.environ.get('VERIF_SEED', '20260925'))
    budget = a.budget if a.budget is not None else (45.0 if a.tier == 'quick' else 600.0)
    return run_check(a.prop, a.tier, seed, budget, a.workers, a.max_runs, write_evidence=not a.no_evidence)
