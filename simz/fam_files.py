"""C17 - file based sources deliver every record exactly once however the data arrives."""
import copy

from .oracles import Violation
from .srcsim import run_source
from .fam_pipeline import Outcome

LEVEL = {'C17': 'exploration'}
CHUNK = {'C17': 60}
COMPONENTS = {
    'real': ['streamz.sources.from_textfile / filenames / Source.start/run (real code)', 'streamz.core', 'streamz.sinks',
             'tornado + asyncio scheduling'],
    'stub': ['file object -> FakeFile (append-only text, optional short reads, seek(0,2))',
             'glob -> FakeFS.glob (live set in scenario-chosen listing order)', 'selector/clock -> SimLoop',
             'open() -> fake_open for sources given a file name (bytes underneath; text-mode reads decode each read to the end, as TextIOWrapper.read() does); the real filesystem is not exercised'],
}
ASSUMPTIONS = {'C17': ['a write becomes visible atomically per scripted chunk; chunks may cut records and delimiters anywhere',
                       'the source is bound to the simulated loop explicitly (asynchronous=True, loop=...)']}
RULE = {'C17': 'text over a small alphabet that contains the delimiter characters, cut into random chunks appended at '
               'random virtual times relative to start() and the polls, optional short reads, slow sinks; for filenames: '
               'creation times and a scenario-chosen listing order. Non-trivial = at least two records (paths) were due; '
               'distinct = distinct schedule signatures'}

GRID = [0, 0, 0.25, 0.5, 1, 2]


def generate(prop, rng, seed, index, tier):
    big = tier == 'thorough'
    if rng.random() < 0.75:
        d = rng.choice(['\n', '\n', '||', 'abc', 'aa', 'ab', ';'])
        alpha = ['x', 'y'] + list(d) * 2
        if rng.random() < 0.3:
            # characters some string methods treat as line ends: to this source they are ordinary text
            alpha += rng.sample(['\x0b', '\x0c', '\x1c', '\x1e', '\x85', '\u2028', '\u2029', '\r', ' ', '\t'], rng.randrange(1, 4))
        n = rng.randrange(0, 60 if big else 36)
        text = ''.join(rng.choice(alpha) for _ in range(n))
        if rng.random() < 0.6:
            text += d
        ncut = rng.randrange(0, 10 if big else 7)
        cuts = sorted(rng.randrange(0, len(text) + 1) for _ in range(ncut))
        pieces = []
        prev = 0
        for c in cuts + [len(text)]:
            pieces.append(text[prev:c])
            prev = c
        npre = rng.randrange(0, 3) if len(pieces) > 1 else 0
        pre = ''.join(pieces[:npre])
        ops = []
        t = 0.0
        start_after = rng.randrange(0, len(pieces) - npre + 1)
        for k, pc in enumerate(pieces[npre:]):
            if k == start_after:
                ops.append({'t': t, 'op': 'start'})
            t += rng.choice(GRID)
            if pc or rng.random() < 0.3:
                ops.append({'t': t, 'op': 'append', 'data': pc})
        if not any(o['op'] == 'start' for o in ops):
            ops.append({'t': t, 'op': 'start'})
        if rng.random() < 0.25:
            # the reader is paused and resumed while data keeps arriving (stop() then start()): what was
            # written must still come out exactly once - also the records of a read that was being emitted
            t0 = [o['t'] for o in ops if o['op'] == 'start'][0]
            ts = t0 + rng.choice([0, 0.25, 0.5, 0.75, 1, 1.5, 2, 3])
            ops.append({'t': ts, 'op': 'stop'})
            ops.append({'t': ts + rng.choice([0, 0.25, 0.5, 1, 2]), 'op': 'start'})
        sink = {'kind': rng.choice(['sync', 'native', 'tornado'])}
        if sink['kind'] != 'sync':
            sink['lat'] = [rng.choice([None, 0, 0.25, 0.5, 1, 2]) for _ in range(rng.randrange(1, 4))]
        src = {'type': 'textfile', 'pre': pre, 'delimiter': d, 'poll': rng.choice([0.25, 0.5, 1]),
               'from_end': rng.random() < 0.3}
        if rng.random() < 0.3:
            src['short'] = [rng.choice([1, 2, 3, None]) for _ in range(rng.randrange(1, 4))]
        if rng.random() < 0.2:
            # the source opens the file by name and the writer's chunks are byte strings: cuts may fall inside a
            # multi-byte character
            alpha2 = alpha + ['é', '€', 'ß']
            if rng.random() < 0.4:
                # CR and CR LF line ends, which a file opened by name hands over as '\\n' (universal newlines) -
                # also when a write ends between the CR and the LF
                alpha2 += ['\r', '\r\n', '\r\n']
            text2 = ''.join(rng.choice(alpha2) for _ in range(rng.randrange(1, 24))) + (d if rng.random() < 0.7 else '')
            raw = text2.encode('utf-8')
            cuts2 = sorted(rng.randrange(0, len(raw) + 1) for _ in range(rng.randrange(1, 8)))
            ops = [{'t': 0.0, 'op': 'start'}]
            prev, t2 = 0, 0.0
            for c in cuts2 + [len(raw)]:
                t2 += rng.choice(GRID)
                ops.append({'t': t2, 'op': 'append', 'hex': raw[prev:c].hex()})
                prev = c
            src = {'type': 'textfile', 'by_path': True, 'pre_hex': '', 'delimiter': d, 'poll': rng.choice([0.25, 0.5, 1])}
            if rng.random() < 0.3:
                src['short'] = [rng.choice([1, 2, 3, None]) for _ in range(rng.randrange(1, 4))]
            text = text2
            if rng.random() < 0.3:
                # a second source tails another file by name in the same process: the two have nothing in common
                src['twin_text'] = True
                text3 = ''.join(rng.choice(alpha2) for _ in range(rng.randrange(1, 16))) + (d if rng.random() < 0.7 else '')
                raw3 = text3.encode('utf-8')
                cuts3 = sorted(rng.randrange(0, len(raw3) + 1) for _ in range(rng.randrange(1, 6)))
                prev, t3 = 0, 0.0
                for c in cuts3 + [len(raw3)]:
                    t3 += rng.choice(GRID)
                    ops.append({'t': t3, 'op': 'append', 'hex': raw3[prev:c].hex(), 'file': 2})
                    prev = c
        nrec = len(text.split(d))
        maxlat = max([x or 0 for x in sink.get('lat', [0])] + [0])
        sc = {'format': 1, 'family': 'files', 'property': 'C17', 'seed': seed, 'index': index, 'source': src,
              'ops': ops, 'sink': sink, 'via_map': rng.random() < 0.2,
              'tiebreak': rng.choice(['fifo', 'lifo', 'seeded']), 'tiebreak_seed': rng.randrange(1000),
              'drain': (nrec + len(text) + 3) * (maxlat + src['poll']) + 5}
        return sc
    # filenames
    nfiles = rng.randrange(1, 12 if big else 8)
    names = ['/data/f%02d' % rng.randrange(0, 30) for _ in range(nfiles)]
    names = list(dict.fromkeys(names))
    order_key = {n: rng.randrange(100) for n in names}
    npre = rng.randrange(0, 3)
    ops = []
    t = 0.0
    start_after = rng.randrange(0, len(names[npre:]) + 1)
    deleting = rng.random() < 0.3
    deleted = set()
    for k, n in enumerate(names[npre:]):
        if k == start_after:
            ops.append({'t': t, 'op': 'start'})
        t += rng.choice(GRID)
        ops.append({'t': t, 'op': 'create', 'name': n})
        if deleting and rng.random() < 0.4:
            # a consumer that removes files it is done with (or any clean-up job): paths vanish from the listing
            existing = [x for x in names[:npre + k + 1] if x not in deleted]
            if existing:
                d = rng.choice(existing)
                deleted.add(d)
                t += rng.choice(GRID)
                ops.append({'t': t, 'op': 'delete', 'name': d})
        if deleted and rng.random() < 0.3:
            # ... and come back (rotation, unlink-and-rewrite): a path that was emitted is not emitted again
            back = rng.choice(sorted(deleted))
            deleted.discard(back)
            t += rng.choice(GRID + [1, 2])
            ops.append({'t': t, 'op': 'create', 'name': back})
    if not any(o['op'] == 'start' for o in ops):
        ops.append({'t': t, 'op': 'start'})
    sink = {'kind': rng.choice(['sync', 'native', 'tornado'])}
    if sink['kind'] != 'sync':
        sink['lat'] = [rng.choice([None, 0, 0.25, 0.5, 1, 2]) for _ in range(rng.randrange(1, 4))]
    poll = rng.choice([0.25, 0.5, 1])
    maxlat = max([x or 0 for x in sink.get('lat', [0])] + [0])
    return {'format': 1, 'family': 'files', 'property': 'C17', 'seed': seed, 'index': index,
            'source': {'type': 'filenames', 'pre': names[:npre], 'order_key': order_key, 'poll': poll,
                       'twin': False if rng.random() < 0.7 else True,
                       # a legal but non-canonical spelling of the watched directory
                       'spelling': rng.choice([None, None, None, '/data//', '/data/./', './data/'])},
            'ops': ops, 'sink': sink, 'via_map': False,
            'tiebreak': rng.choice(['fifo', 'lifo', 'seeded']), 'tiebreak_seed': rng.randrange(1000),
            'drain': (len(names) + 3) * (maxlat + poll) + 5}


def _sink_spans(ev):
    """(start event, end seq or None) of every sink invocation"""
    starts = [e for e in ev if e[2] == 'sink_start']
    ends = [e[0] for e in ev if e[2] == 'sink_end']
    return [(st, ends[k] if k < len(ends) else None) for k, st in enumerate(starts)]


def _bytes_written(sc, which=None):
    s = sc['source']
    order = sorted(enumerate(o for o in sc['ops'] if not o.get('skip')), key=lambda p: (p[1]['t'], p[0]))
    return (bytes.fromhex(s.get('pre_hex', '')) if which is None else b'') + \
        b''.join(bytes.fromhex(o['hex']) for _, o in order if o['op'] == 'append' and o.get('file') == which)


def _universal(text):
    # universal newlines; a CR at the very end is not decided yet (an LF may follow): it is held back
    if text.endswith('\r'):
        text = text[:-1]
    return text.replace('\r\n', '\n').replace('\r', '\n')


def evaluate(prop, sc, want_trace=False):
    if sc['source'].get('by_path'):
        # a valid scenario writes UTF-8 text, possibly not finished yet (the last character may be incomplete);
        # minimisation can cut a write in the middle of a character and leave bytes no decoder accepts
        import codecs
        try:
            codecs.getincrementaldecoder('utf-8')().decode(_bytes_written(sc), False)
            codecs.getincrementaldecoder('utf-8')().decode(_bytes_written(sc, 2), False)
        except UnicodeDecodeError:
            out = Outcome()
            out.status = 'invalid_scenario'
            out.signature = 'invalid'
            return out
    rec, status = run_source(sc)
    ev = rec.events
    out = Outcome()
    out.status = status
    out.sim_time = ev[-1][1] if ev else 0.0
    out.events = len(ev)
    out.signature = rec.signature()
    V = []
    s = sc['source']
    emitted = [(e[0], e[4]) for e in ev if e[2] == 'sink_start']
    ended = any(e[2] == 'end' for e in ev)
    for e in ev:
        if e[2] in ('task_exc', 'bg_exc'):
            V.append(Violation('C17', 'C17.records', e[0], 'the source died: %r' % (e[3:],), node_op=s['type']))
            break
    if s['type'] == 'textfile' and not V:
        d = s.get('delimiter', '\n')
        ops = [o for o in sc['ops'] if not o.get('skip')]
        visible = s.get('pre', '') + ''.join(o.get('data', '') for o in sorted(
            (o for o in ops if o['op'] == 'append'), key=lambda o: o['t']))
        # appends are applied in (t, position) order, the same order the executor uses
        order = sorted(enumerate(ops), key=lambda p: (p[1]['t'], p[0]))
        visible = s.get('pre', '') + ''.join(o.get('data', '') for _, o in order if o['op'] == 'append' and not o.get('file'))
        if s.get('by_path'):
            import codecs
            visible = codecs.getincrementaldecoder('utf-8')().decode(_bytes_written(sc), False)
            visible = _universal(visible)
        startpos = len(s.get('pre', '')) if s.get('from_end') else 0
        body = visible[startpos:]
        expected = [r + d for r in body.split(d)[:-1]]
        got = [v for _, v in emitted]
        for k, (seq, v) in enumerate(emitted):
            if k >= len(expected) or v != expected[k]:
                if not v.endswith(d) or (k >= len(expected) and body.endswith(v) is False and v not in expected):
                    V.append(Violation('C17', 'C17.tail_leaked', seq,
                                       'from_textfile emitted %r as record #%d; records so far must be %r (text %r, delimiter %r)'
                                       % (v, k, expected[:k + 1], body, d), node_op='from_textfile'))
                else:
                    V.append(Violation('C17', 'C17.records', seq,
                                       'from_textfile record #%d is %r, expected %r (text %r, delimiter %r, emitted %r)'
                                       % (k, v, expected[k] if k < len(expected) else None, body, d, got), node_op='from_textfile'))
                break
        if not V and ended and status == 'ok' and len(got) < len(expected):
            V.append(Violation('C17', 'C17.records', len(ev) - 1,
                               'from_textfile emitted %d of %d complete records; first missing %r (text %r, delimiter %r)'
                               % (len(got), len(expected), expected[len(got)], body, d), node_op='from_textfile'))
        if not V and s.get('twin_text'):
            import codecs
            body2 = _universal(codecs.getincrementaldecoder('utf-8')().decode(_bytes_written(sc, 2), False))
            exp2 = [r + d for r in body2.split(d)[:-1]]
            got2 = [e[3] for e in ev if e[2] == 'twin_emit']
            if got2 != exp2[:len(got2)] or (ended and status == 'ok' and got2 != exp2):
                V.append(Violation('C17', 'C17.records', len(ev) - 1,
                                   'a second from_textfile source tailing another file by name emitted %r, its records are %r (text %r, delimiter %r)'
                                   % (got2, exp2, body2, d), node_op='from_textfile'))
            out.probes['two_files_tailed_by_name'] = 1
        if len(expected) >= 2:
            out.probes['records>=2'] = 1
            reads = [e[4] if isinstance(e[4], str) else e[4].decode('utf-8', 'replace')
                     for e in ev if e[2] == 'cycle' and e[3] == 'read' and e[4]]
            if s.get('by_path'):
                out.probes['file_opened_by_name'] = 1
                if any(isinstance(e[4], bytes) and e[4].decode('utf-8', 'ignore').encode() != e[4]
                       for e in ev if e[2] == 'cycle' and e[3] == 'read' and e[4]):
                    out.probes['read_ends_inside_a_multibyte_character'] = 1
            if any(not r.endswith(d) for r in reads):
                out.probes['read_ends_inside_record'] = 1
            if len(d) > 1 and any(any(r.endswith(d[:j]) for j in range(1, len(d))) and not r.endswith(d) for r in reads):
                out.probes['read_ends_inside_delimiter'] = 1
            if any(r.count(d) >= 2 for r in reads):
                out.probes['several_records_per_read'] = 1
            if s.get('from_end') and s.get('pre'):
                out.probes['from_end_with_old_data'] = 1
            if s.get('short'):
                out.probes['short_reads'] = 1
            if any(o['op'] == 'stop' for o in sc['ops']):
                out.probes['paused_and_resumed'] = 1
                stops = [e[0] for e in ev if e[2] == 'stop_call']
                if any(a[0] < sq and (b is None or b > sq) for sq in stops
                       for a, b in _sink_spans(ev)):
                    out.probes['paused_while_a_record_was_being_handled'] = 1
    elif s['type'] == 'filenames' and not V:
        spell = (lambda n: n.replace('/data/', s['spelling'], 1)) if s.get('spelling') else (lambda n: n)
        names = [spell(n) for n in list(s.get('pre', [])) + [o['name'] for o in sc['ops'] if o['op'] == 'create' and not o.get('skip')]]
        seen = set()
        group = []
        listing = None

        def close_group(at):
            if listing is None:
                if group:
                    return Violation('C17', 'C17.filenames', at, 'paths %r emitted before any listing' % group, node_op='filenames')
                return None
            new = sorted(set(listing) - seen_before[0])
            if group != new:
                return Violation('C17', 'C17.filenames', at,
                                 'filenames: listing %r with %r already seen must emit %r, emitted %r'
                                 % (list(listing), sorted(seen_before[0]), new, group), node_op='filenames')
            return None
        seen_before = [set()]
        for e in ev:
            if e[2] == 'cycle' and e[3] == 'glob':
                v = close_group(e[0])
                if v:
                    V.append(v)
                    break
                seen_before[0] = set(seen)
                listing = e[4]
                group = []
            elif e[2] == 'sink_start':
                group.append(e[4])
                seen.add(e[4])
        if not V and ended and status == 'ok':
            got = [v for _, v in emitted]
            gone = set(spell(o['name']) for o in sc['ops'] if o['op'] == 'delete' and not o.get('skip'))
            # (a path deleted again before any poll listed it is never owed; what each listing owes is judged above)
            if gone:
                if not (set(names) - gone <= set(got) <= set(names)) or len(got) != len(set(got)):
                    V.append(Violation('C17', 'C17.filenames', len(ev) - 1,
                                       'filenames emitted %r, paths created: %r, deleted: %r' % (got, sorted(set(names)), sorted(gone)), node_op='filenames'))
            elif sorted(got) != sorted(set(names)):
                V.append(Violation('C17', 'C17.filenames', len(ev) - 1,
                                   'filenames emitted %r, paths that exist: %r' % (got, sorted(set(names))), node_op='filenames'))
        if not V and s.get('twin') and ended and status == 'ok':
            got2 = [e[3] for e in ev if e[2] == 'twin_emit']
            gone = set(spell(o['name']) for o in sc['ops'] if o['op'] == 'delete' and not o.get('skip'))
            if not (set(names) - gone <= set(got2) <= set(names)) or len(got2) != len(set(got2)):
                V.append(Violation('C17', 'C17.filenames', len(ev) - 1,
                                   'a second filenames source watching the same directory emitted %r, paths created: %r (deleted: %r)'
                                   % (got2, sorted(set(names)), sorted(gone)), node_op='filenames'))
            out.probes['two_sources_on_one_directory'] = 1
        if len(names) >= 2:
            out.probes['paths>=2'] = 1
            gl = [e[4] for e in ev if e[2] == 'cycle' and e[3] == 'glob']
            if any(list(g) != sorted(g) for g in gl):
                out.probes['unsorted_listing'] = 1
            if any(len(g) >= 2 for g in gl):
                out.probes['several_new_paths_in_one_poll'] = 1
            if any(o['op'] == 'delete' for o in sc['ops']):
                out.probes['paths_deleted_while_watching'] = 1
            if s.get('spelling'):
                out.probes['non_canonical_spelling_of_the_directory'] = 1
    nshort = sum(1 for e in ev if e[2] == 'cycle' and e[3] == 'read' and sc['source'].get('short') and e[4])
    if nshort:
        out.faults['short_read'] = nshort
    napp = sum(1 for e in ev if e[2] == 'append')
    if napp:
        out.faults['chunked_append'] = napp
    out.violations = V
    out.nontrivial = bool(out.probes)
    if want_trace:
        class R:
            pass
        out.res = R()
        out.res.events = ev
    return out


def shrink_candidates(sc):
    def clone():
        return copy.deepcopy(sc)
    ops = sc['ops']
    for i in range(len(ops) - 1, -1, -1):
        if ops[i]['op'] in ('append', 'create'):
            c = clone()
            del c['ops'][i]
            yield c
    # merge adjacent appends
    for i in range(len(ops) - 1):
        if ops[i]['op'] == 'append' and ops[i + 1]['op'] == 'append' and 'data' in ops[i] and 'data' in ops[i + 1]:
            c = clone()
            c['ops'][i]['data'] = ops[i]['data'] + ops[i + 1]['data']
            del c['ops'][i + 1]
            yield c
    for i, o in enumerate(ops):
        if o['op'] == 'append' and len(o.get('data', '')) > 1:
            for cut in (len(o['data']) // 2, 1):
                c = clone()
                c['ops'][i]['data'] = o['data'][cut:]
                yield c
                c = clone()
                c['ops'][i]['data'] = o['data'][:-cut]
                yield c
        if o['t']:
            c = clone()
            c['ops'][i]['t'] = 0
            yield c
    s = sc['source']
    if s.get('short'):
        c = clone()
        c['source'].pop('short')
        yield c
    if s.get('pre'):
        c = clone()
        c['source']['pre'] = s['pre'][:-1] if isinstance(s['pre'], list) else ''
        yield c
    if sc['sink'].get('kind') != 'sync':
        c = clone()
        c['sink'] = {'kind': 'sync'}
        yield c
    if sc['sink'].get('lat') and sc['sink']['lat'] != [None]:
        c = clone()
        c['sink']['lat'] = [None]
        yield c
    if sc.get('via_map'):
        c = clone()
        c['via_map'] = False
        yield c
    if sc.get('tiebreak') != 'fifo':
        c = clone()
        c['tiebreak'] = 'fifo'
        yield c
