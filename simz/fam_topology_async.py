"""C15, variant 'async': graph edits on pipelines whose middle node has asynchronous internal state
(timed_window, buffer, delay, rate_limit, latest, partition with a timeout).

Shape: two entry points A (connected to the head of a chain) and B (unconnected at first); a chain
c0 .. cm of one-input nodes holding exactly one asynchronous node; a recording sink at the end and
optionally a second one in the middle.  Operations: emit at A or B, disconnect / connect an existing /
missing edge (entry point -> chain node, chain node -> next chain node), destroy a chain node; each
followed by enough virtual time for everything in flight to come out ("settle") - except that an edit
of an edge *at or above* the asynchronous node may follow an emit immediately, while the element is
still inside that node: the edges it has yet to travel all exist, so it must still be delivered.

Oracle (executable model = the edge set): links are mutually consistent after every operation; every
sink receives exactly the tokens of the emissions that had a path to it when they were emitted, in
emission order, nothing else, nothing twice.
"""
import asyncio
import copy
import types

from . import loop as simloop
from .trace import Recorder
from .oracles import Violation
from .fam_pipeline import Outcome
from .fns import TOKEN_BASE, tokens, freeze

ASYNC_OPS = ['timed_window', 'timed_window_unique', 'buffer', 'delay', 'rate_limit', 'latest', 'partition_t']
SETTLE = 6.0


def generate(rng, seed, index, tier):
    big = tier == 'thorough'
    m = rng.randrange(1, 5 if big else 4)
    apos = rng.randrange(0, m)
    chain = []
    for j in range(m):
        if j == apos:
            op = rng.choice(ASYNC_OPS)
            n = {'op': op, 'interval': rng.choice([0.25, 0.5, 1])}
            if op == 'buffer':
                n['n'] = rng.choice([1, 2, 5])
            if op == 'partition_t':
                n['n'] = rng.choice([2, 3])
            chain.append(n)
        else:
            chain.append({'op': 'map', 'tag': j})
    side = rng.randrange(0, m) if rng.random() < 0.4 else None
    # edges: ('A'|'B'|j, j2) ; initial: A -> c0 and the chain
    edges = {('A', 0)} | {(j, j + 1) for j in range(m - 1)}
    ops = []
    nops = rng.randrange(3, 14 if big else 10)
    tok = [0]

    def emit(src):
        tok[0] += 1
        return {'op': 'emit', 'src': src, 'v': TOKEN_BASE + tok[0]}

    ops.append(emit('A'))
    pattern_at = rng.randrange(0, nops) if rng.random() < 0.35 else None
    for it in range(nops):
        if it == pattern_at:
            # biased history: cut the asynchronous node off while an element is inside it, give it a new
            # input, use it (a node that stops working once it has lost its inputs shows only here)
            srcs = [s_ for s_ in ('A', 'B') if _arrives(edges, s_, apos)]
            if srcs:
                e0 = emit(rng.choice(srcs))
                e0['nosettle'] = True
                ops.append(e0)
                if rng.random() < 0.5:
                    ops.append({'op': 'destroy', 'v': apos})
                    for e in list(edges):
                        if e[1] == apos:
                            edges.discard(e)
                else:
                    cut = [e for e in sorted(edges, key=str) if e[1] == apos]
                    for e in cut[:-1]:
                        ops.append({'op': 'disconnect', 'u': e[0], 'v': e[1], 'nosettle': True})
                        edges.discard(e)
                    ops.append({'op': 'disconnect', 'u': cut[-1][0], 'v': cut[-1][1]})
                    edges.discard(cut[-1])
                src = rng.choice(['A', 'B'])
                ops.append({'op': 'connect', 'u': src, 'v': apos})
                edges.add((src, apos))
                ops.append(emit(src))
            continue
        r = rng.random()
        if r < 0.45:
            ops.append(emit(rng.choice(['A', 'A', 'B'])))
            continue
        kinds = []
        present = sorted(edges, key=str)
        if present:
            kinds += ['disconnect', 'disconnect']
        missing = [(s, j) for s in ('A', 'B') for j in range(m) if (s, j) not in edges] + \
                  [(j, j + 1) for j in range(m - 1) if (j, j + 1) not in edges]
        if missing:
            kinds += ['connect', 'connect', 'connect']
        kinds.append('destroy')
        k = rng.choice(kinds)
        if k == 'disconnect':
            e = rng.choice(present)
            o = {'op': 'disconnect', 'u': e[0], 'v': e[1]}
            edges.discard(e)
        elif k == 'connect':
            e = rng.choice(missing)
            o = {'op': 'connect', 'u': e[0], 'v': e[1]}
            edges.add(e)
        else:
            j = rng.randrange(0, m)
            o = {'op': 'destroy', 'v': j}
            for e in list(edges):
                if e[1] == j:
                    edges.discard(e)
        # may this edit follow the previous emit at once (element still inside the asynchronous node)?
        if ops and ops[-1]['op'] == 'emit' and o.get('v', 99) <= apos and rng.random() < 0.5:
            ops[-1]['nosettle'] = True
        ops.append(o)
        if rng.random() < 0.7:
            ops.append(emit(rng.choice(['A', 'B'])))
    return {'format': 1, 'family': 'topology', 'variant': 'async', 'property': 'C15', 'seed': seed, 'index': index,
            'chain': chain, 'side_sink': side, 'ops': ops,
            'tiebreak': rng.choice(['fifo', 'lifo', 'seeded']), 'tiebreak_seed': rng.randrange(1000)}


def run(sc):
    simloop.install_seams()
    from streamz import Stream
    lp = simloop.new_loop(sc.get('tiebreak', 'fifo'), sc.get('tiebreak_seed', 0))
    asyncio.set_event_loop(lp)
    rec = Recorder(lp)
    chain = sc['chain']
    m = len(chain)
    V = []
    status = ['ok']
    keep = []

    async def main():
        A = Stream(asynchronous=True)
        B = Stream(asynchronous=True)
        nodes = {'A': A, 'B': B}
        cur = A
        for j, n in enumerate(chain):
            op = n['op']
            if op == 'map':
                cur = cur.map(lambda x, _t=n['tag']: (_t, x))
            elif op == 'timed_window':
                cur = cur.timed_window(n['interval'])
            elif op == 'timed_window_unique':
                cur = cur.timed_window_unique(n['interval'])
            elif op == 'buffer':
                cur = cur.buffer(n['n'])
            elif op == 'delay':
                cur = cur.delay(n['interval'])
            elif op == 'rate_limit':
                cur = cur.rate_limit(n['interval'])
            elif op == 'latest':
                cur = cur.latest()
            elif op == 'partition_t':
                cur = cur.partition(n['n'], timeout=n['interval'])
            else:
                raise ValueError(op)
            nodes[j] = cur
        sinks = {}

        def mk(name):
            def f(x):
                rec.rec('sink', name, freeze(x))
            return f
        sinks['end'] = nodes[m - 1].sink(mk('end'))
        if sc.get('side_sink') is not None:
            sinks['side'] = nodes[sc['side_sink']].sink(mk('side'))
        keep.extend(nodes.values())
        keep.extend(sinks.values())
        edges = {('A', 0)} | {(j, j + 1) for j in range(m - 1)}

        def links_ok(at):
            for u in ['A', 'B'] + list(range(m)):
                for v in range(m):
                    if u == v:
                        continue
                    down = nodes[v] in list(nodes[u].downstreams)
                    up = nodes[u] in list(nodes[v].upstreams)
                    want = (u, v) in edges
                    if down != want or up != want:
                        V.append(Violation('C15', 'C15.links', len(rec.events),
                                           'after operation #%d: edge %s -> c%d should %sexist; child listed downstream: %s, parent listed upstream: %s'
                                           % (at, u if isinstance(u, str) else 'c%d' % u, v, '' if want else 'not ', down, up)))
                        return False
            return True

        await asyncio.sleep(SETTLE)
        for k, o in enumerate(sc['ops']):
            op = o['op']
            if op == 'emit':
                rec.rec('emit', o['src'], o['v'], tuple(sorted(edges, key=str)))
                aw = nodes[o['src']].emit(o['v'])
                if aw is not None:
                    await aw        # (an awaitable that is already done does not give the loop a turn)
                rec.rec('emit_done', o['v'])
            elif op == 'connect':
                rec.rec('connect', o['u'], o['v'])
                nodes[o['u']].connect(nodes[o['v']])
                edges.add((o['u'], o['v']))
            elif op == 'disconnect':
                rec.rec('disconnect', o['u'], o['v'])
                nodes[o['u']].disconnect(nodes[o['v']])
                edges.discard((o['u'], o['v']))
            elif op == 'destroy':
                rec.rec('destroy', o['v'])
                nodes[o['v']].destroy()
                for e in list(edges):
                    if e[1] == o['v']:
                        edges.discard(e)
            if op != 'emit' and not links_ok(k):
                return
            if not o.get('nosettle'):
                await asyncio.sleep(SETTLE)
        await asyncio.sleep(SETTLE)
        rec.rec('end')

    async def _wrap(aw):
        return await aw

    try:
        with simloop.guard_blocking():
            lp.run_until_complete(main())
    except simloop.Deadlock:
        status[0] = 'deadlock'
        rec.rec('deadlock')
    except simloop.Livelock:
        status[0] = 'livelock'
    except simloop.StepCap:
        status[0] = 'step_cap'
    finally:
        for name, exc in lp.dead_tasks():
            rec.rec('task_exc', name, type(exc).__name__, str(exc)[:80])
        simloop.dispose_loop(lp)
        from .pipeline import _reset_streamz
        _reset_streamz()
    return rec, status[0], V


def _arrives(edges, src, j):
    """does an element emitted at src reach chain node j?"""
    ok = False
    for k in range(j + 1):
        ok = ((src, k) in edges) or (ok and (k - 1, k) in edges)
    return ok


def _reach(edges, src, chain, side):
    """how many copies of an element emitted at entry point src each sink is owed: the number of paths over
    the edge set (all arrivals at the one asynchronous node happen within the emit call, so `latest`
    passes on only the newest of them)"""
    m = len(chain)
    out_prev = 0
    outs = []
    for j in range(m):
        cnt = (1 if (src, j) in edges else 0) + (out_prev if (j - 1, j) in edges else 0)
        if chain[j]['op'] == 'latest':
            cnt = min(cnt, 1)
        # (timed_window_unique: copies of one element that arrive over different paths carry different tags,
        # so they are different values and all survive)
        outs.append(cnt)
        out_prev = cnt
    res = {'end': outs[m - 1]}
    if side is not None:
        res['side'] = outs[side]
    return res


def evaluate(prop, sc, want_trace=False):
    rec, status, V = run(sc)
    ev = rec.events
    out = Outcome()
    out.status = status
    out.events = len(ev)
    out.signature = rec.signature()
    out.sim_time = ev[-1][1] if ev else 0.0
    m = len(sc['chain'])
    side = sc.get('side_sink')
    apos = [j for j, n in enumerate(sc['chain']) if n['op'] != 'map'][0]
    if not V:
        for e in ev:
            if e[2] in ('task_exc', 'bg_exc'):
                V.append(Violation('C15', 'C15.delivery', e[0], 'a node died: %r' % (e[3:],)))
                break
    if not V and status == 'ok' and any(e[2] == 'end' for e in ev):
        expect = {'end': [], 'side': []}
        for e in ev:
            if e[2] == 'emit':
                for s, cnt in _reach(set(e[5]), e[3], sc['chain'], side).items():
                    expect[s].extend([e[4]] * cnt)
        got = {'end': [], 'side': []}
        for e in ev:
            if e[2] == 'sink':
                got[e[3]].extend(tokens(e[4]))
        for s in ('end', 'side'):
            if got[s] != expect[s]:
                missing = [t for t in expect[s] if t not in got[s]]
                extra = [t for t in got[s] if t not in expect[s]]
                what = ('never delivered: %r' % missing) if missing else ('delivered without an edge: %r' % extra) if extra \
                    else 'order/multiplicity differs'
                V.append(Violation('C15', 'C15.delivery', len(ev) - 1,
                                   'sink %r (asynchronous node: %s at c%d) received tokens %r, the edges that existed at each emission give %r (%s)'
                                   % (s, sc['chain'][apos]['op'], apos, got[s], expect[s], what),
                                   node_op=sc['chain'][apos]['op']))
                break
    out.violations = V
    ops = sc['ops']
    edited = False
    for o in ops:
        if o['op'] != 'emit':
            edited = True
            out.faults[o['op']] = out.faults.get(o['op'], 0) + 1
        elif edited:
            out.probes['emit_after_edit'] = 1
    out.probes['edit_of_pipeline_with_asynchronous_node'] = 1
    if any(o.get('nosettle') for o in ops):
        out.probes['edit_while_element_inside_asynchronous_node'] = 1
    if any(o['op'] in ('destroy', 'disconnect') and o['v'] == apos for o in ops):
        out.probes['asynchronous_node_cut_off'] = 1
    out.nontrivial = 'emit_after_edit' in out.probes
    if want_trace:
        out.res = types.SimpleNamespace(events=ev)
    return out


def shrink_candidates(sc):
    ops = sc['ops']
    for i in range(len(ops) - 1, -1, -1):
        if ops[i]['op'] == 'emit' and not ops[i].get('nosettle'):
            c = copy.deepcopy(sc)
            del c['ops'][i]
            yield c
    for i in range(len(ops)):
        if ops[i].get('nosettle'):
            c = copy.deepcopy(sc)
            c['ops'][i].pop('nosettle')
            yield c
    if sc.get('side_sink') is not None:
        c = copy.deepcopy(sc)
        c['side_sink'] = None
        yield c
