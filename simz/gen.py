"""Seeded generator of pipeline-family scenarios (typed DAGs, producers, schedules).

All randomness comes from the ``random.Random`` handed in (derived from
VERIF_SEED by the runner); the scenario that comes out is plain JSON data.
"""
from .fns import TOKEN_BASE

GRID = [0, 0, 0.25, 0.5, 1, 2, 5]
INTERVALS = [0.25, 0.5, 1, 2, 5]

INT = ('int',)
LOOPY_FOR_FORWARD = {'buffer', 'delay', 'rate_limit', 'map_async', 'timed_window', 'timed_window_unique', 'latest', 'partition'}


def hashable(t):
    k = t[0]
    if k == 'int':
        return True
    if k == 'fix':
        return all(hashable(x) for x in t[1])
    if k == 'var':
        return hashable(t[2])
    if k == 'any':
        return t[1]
    return False


def minlen(t):
    if t[0] == 'fix':
        return len(t[1])
    if t[0] == 'var':
        return t[1]
    return 0


def member(t, i):
    if t[0] == 'fix':
        return t[1][i]
    if t[0] == 'var':
        return t[2]
    if t[0] == 'list':
        return t[1]
    return ('any', False)


def is_tuple(t):
    return t[0] in ('fix', 'var')


def iterable(t):
    return t[0] in ('fix', 'var', 'list')


SYNC_OPS = ['map', 'starmap', 'filter', 'accumulate', 'slice', 'partition', 'partition_unique',
            'sliding_window', 'unique', 'flatten', 'pluck', 'collect', 'union', 'zip',
            'combine_latest', 'zip_latest']
ASYNC_LOSSLESS = ['buffer', 'delay', 'rate_limit', 'map_async', 'timed_window', 'partition_t']
LOSSY = ['latest', 'timed_window_unique']

DIRECT_OPS = ['map', 'starmap', 'filter', 'accumulate', 'slice', 'partition', 'partition_unique',
              'sliding_window', 'unique', 'flatten', 'pluck', 'union', 'zip', 'combine_latest',
              'zip_latest']

PROFILES = {
    # property -> (node pool, weights of modes, options)
    'C01': dict(pool=SYNC_OPS, collect_cache=True, modes=['loopless', 'loopless', 'async', 'threaded'], md=0.3, sinks=['sync'], feedback=True, forward=True),
    'C10': dict(window_survives_failure=True, collect_md_cache=True, pool=SYNC_OPS + ASYNC_LOSSLESS + LOSSY, modes=['loopless', 'async', 'async', 'threaded'], md=0.85, falsy_dedup=True,
                sinks=['sync', 'native', 'tornado', 'future']),
    'C02': dict(restarts=True, pool=ASYNC_LOSSLESS + ['map', 'filter', 'zip', 'union', 'accumulate', 'sliding_window', 'partition', 'flatten',
                                        'zip_latest', 'combine_latest', 'collect', 'pluck', 'starmap', 'slice', 'unique'],
                need=ASYNC_LOSSLESS + ['zip', 'union'], modes=['async', 'async', 'async', 'threaded'], md=0.3, stalls=True, forward=True,
                sinks=['sync', 'native', 'tornado', 'future']),
    'C03': dict(restarts=True, pool=['buffer', 'map_async', 'zip', 'rate_limit', 'map', 'filter', 'partition', 'sliding_window',
                      'timed_window', 'union', 'accumulate', 'delay', 'partition_t', 'flatten', 'slice',
                      'zip_latest', 'combine_latest', 'collect', 'pluck'],
                need=['buffer', 'map_async', 'zip'], modes=['async', 'async', 'threaded'], md=0.2, await_all=True, stalls=True, forward=True,
                sinks=['native', 'tornado', 'future', 'sync']),
    'C04': dict(flatten_serial=True, pool=SYNC_OPS + ASYNC_LOSSLESS + LOSSY, need=ASYNC_LOSSLESS + LOSSY + ['sink_async'],
                modes=['async', 'async', 'async', 'threaded'], md=1.0, refs=True, inject_failures=True, stalls=True, falsy_dedup=True, lazy_attach=True,
                sinks=['native', 'tornado', 'future', 'sync']),
    'C05': dict(collect_cache=True, pool=SYNC_OPS + ASYNC_LOSSLESS + LOSSY, modes=['loopless', 'async', 'async', 'threaded'], md=1.0, refs=True, stalls=True, falsy_dedup=True,
                sinks=['sync', 'native', 'tornado', 'future']),
    'C08': dict(emit_at_once=0.35, falsy_dedup=True, pool=['timed_window', 'partition_t', 'timed_window_unique', 'map', 'filter', 'buffer', 'flatten'],
                need=['timed_window', 'partition_t', 'timed_window_unique'], modes=['async', 'async', 'threaded'], md=0.3,
                sinks=['native', 'tornado', 'future', 'sync'], bursts=True),
    'C13': dict(off_grid=True, fail_below_rate_limit=True, restarts=True, pool=['rate_limit', 'delay', 'map', 'filter', 'union', 'buffer'], need=['rate_limit', 'delay'], stalls=True,
                modes=['async', 'async', 'threaded'], md=0.2, sinks=['sync', 'native', 'tornado', 'future'], bursts=True),
    'C14': dict(late_feeder=True, late_subscriber=True, pool=['latest', 'map', 'filter', 'union'], need=['latest'], feedback_sink=True, modes=['async', 'async', 'threaded'], md=0.4, stalls=True,
                sinks=['native', 'tornado', 'future', 'sync'], bursts=True),
    'C16': dict(pool=DIRECT_OPS + ['rate_limit'], modes=['loopless', 'async', 'async', 'threaded'], md=1.0, refs=True, forward=True,
                sinks=['sync', 'native', 'tornado', 'future']),
}


class G:
    def __init__(self, rng, prop, size='quick'):
        self.r = rng
        self.prop = prop
        self.pf = PROFILES[prop]
        self.size = size
        self.graph = []
        self.types = {}
        self.sinkable = []

    def pick(self, xs):
        return xs[self.r.randrange(len(xs))]

    def chance(self, p):
        return self.r.random() < p

    def add(self, node, typ):
        node['id'] = len(self.graph)
        if 'interval' in node and self.chance(0.15):
            node['interval_str'] = True        # spelled as a time string ('250ms')
        elif 'interval' in node and float(node['interval']).is_integer() and self.chance(0.2):
            node['interval_np'] = True         # a numpy integer
        self.graph.append(node)
        self.types[node['id']] = typ
        return node['id']

    def candidates(self, predicate=lambda t: True):
        return [n['id'] for n in self.graph if n['op'] != 'sink' and predicate(self.types[n['id']])]

    def key_spec(self, t, need_hashable_identity=True):
        """a key for partition / unique style nodes, biased to collisions"""
        opts = [['wmod', self.pick([1, 2, 3])]]
        if hashable(t):
            opts.append(None)
            opts.append(['ident'])
        if is_tuple(t) and minlen(t) >= 1:
            i = self.r.randrange(minlen(t))
            if hashable(member(t, i)):
                opts.append(['index', i])
        return self.pick(opts)

    def ticking(self, nid):
        n = self.graph[nid]
        if n['op'] in ('timed_window', 'timed_window_unique'):
            return True
        return any(self.ticking(u) for u in n.get('up', []))

    def small_n(self):
        return self.pick([1, 1, 2, 2, 3, 4])

    def try_add(self, op):
        r = self.r
        anyp = self.candidates()
        if not anyp:
            return False
        if op == 'map':
            p = self.pick(anyp)
            t = self.types[p]
            choice = self.pick(['tag', 'tag', 'wrap', 'pair', 'ident', 'fanout', 'falsy'] + (['totuple'] if t[0] == 'list' else []))
            if choice == 'tag' and self.chance(0.3):
                # map(func, *args, **kwargs): extras after the element
                node = {'op': 'map', 'up': [p], 'fn': ['tag', r.randrange(1, 9)]}
                extra = ()
                if self.chance(0.7):
                    node['args'] = [r.randrange(1, 9) for _ in range(self.pick([1, 1, 2]))]
                    extra += tuple(INT for _ in node['args'])
                if self.chance(0.4) or not extra:
                    node['kwargs'] = {'kw': r.randrange(1, 9)}
                    extra += (INT,)
                self.add(node, ('fix', (('fix', (INT, t)),) + extra))
            elif choice == 'tag':
                self.add({'op': 'map', 'up': [p], 'fn': ['tag', r.randrange(1, 9)]}, ('fix', (INT, t)))
            elif choice == 'wrap':
                self.add({'op': 'map', 'up': [p], 'fn': ['wrap']}, ('fix', (t,)))
            elif choice == 'pair':
                self.add({'op': 'map', 'up': [p], 'fn': ['pair', r.randrange(1, 9)]}, ('fix', (t, INT)))
            elif choice == 'ident':
                self.add({'op': 'map', 'up': [p], 'fn': ['ident']}, t)
            elif choice == 'falsy':
                m = self.pick([2, 2, 3])
                self.add({'op': 'map', 'up': [p], 'fn': ['falsy', m, r.randrange(m), self.pick([0, 1, 2])]}, ('any', hashable(t)))
            elif choice == 'totuple':
                self.add({'op': 'map', 'up': [p], 'fn': ['totuple']}, ('var', 0, t[1]))
            else:
                k = self.pick([0, 1, 2, 3])
                self.add({'op': 'map', 'up': [p], 'fn': ['fanout', k]}, ('var', k, ('fix', (INT, t))) if k == 0 else ('fix', tuple(('fix', (INT, t)) for _ in range(k))))
            return True
        if op == 'starmap':
            c = self.candidates(lambda t: t[0] == 'fix')
            if not c:
                return False
            p = self.pick(c)
            t = self.types[p]
            node = {'op': 'starmap', 'up': [p], 'fn': ['tagargs', r.randrange(1, 9)]}
            extra = ()
            if self.chance(0.4):
                node['args'] = [r.randrange(1, 9)]
                extra += (INT,)
            if self.chance(0.3):
                node['kwargs'] = {'kw': r.randrange(1, 9)}
                extra += (INT,)
            self.add(node, ('fix', (INT,) + tuple(t[1]) + extra))
            return True
        if op == 'filter':
            p = self.pick(anyp)
            m = self.pick([1, 2, 2, 3])
            fn = self.pick([['wmod', m, r.randrange(m)], ['wmod', m, r.randrange(m)], ['true'], ['false']])
            self.add({'op': 'filter', 'up': [p], 'fn': fn}, self.types[p])
            return True
        if op == 'accumulate':
            p = self.pick(anyp)
            t = self.types[p]
            node = {'op': 'accumulate', 'up': [p], 'fn': ['fold', r.randrange(5)]}
            has_start = self.chance(0.6)
            if has_start:
                node['start'] = [r.randrange(5), 0]
            rs = self.chance(0.3)
            ws = self.chance(0.3)
            st_t = ('fix', (INT, t)) if has_start else ('any', hashable(t))
            res_t = st_t
            if rs:
                node['fn'] = ['fold_rs', r.randrange(5)]
                node['returns_state'] = True
                res_t = ('fix', (INT, INT, t)) if has_start else ('any', hashable(t))
            if ws:
                node['with_state'] = True
                res_t = ('fix', (st_t, res_t)) if has_start else ('any', hashable(t))
            self.add(node, res_t)
            return True
        if op == 'slice':
            p = self.pick(anyp)
            node = {'op': 'slice', 'up': [p]}
            if self.chance(0.7):
                node['start'] = self.pick([0, 1, 1, 2, 3])
            if self.chance(0.5):
                node['end'] = node.get('start', 0) + self.pick([0, 1, 2, 4, 6])
            if self.chance(0.6):
                node['step'] = self.pick([1, 2, 2, 3])
            self.add(node, self.types[p])
            return True
        if op in ('partition', 'partition_t'):
            p = self.pick(anyp)
            t = self.types[p]
            n = self.small_n()
            node = {'op': 'partition', 'up': [p], 'n': n}
            k = self.key_spec(t) if self.chance(0.5) else None
            if k is not None and k != ['ident']:
                node['key'] = k
            elif k == ['ident']:
                node['key'] = ['ident']
            if op == 'partition_t':
                # (0 is a legal deadline: flush what arrived in this loop turn)
                node['timeout'] = 0 if self.chance(0.1) else self.pick(INTERVALS)
                self.add(node, ('var', 1, t))
            else:
                self.add(node, ('fix', tuple(t for _ in range(n))))
            return True
        if op == 'partition_unique':
            p = self.pick(anyp)
            t = self.types[p]
            k = self.key_spec(t)
            if k is None and not hashable(t):
                k = ['wmod', 2]
            n = self.pick([1, 2, 2, 3])
            if k is not None and k[0] == 'wmod':
                n = min(n, k[1])       # more distinct keys than exist would never fill
            node = {'op': 'partition_unique', 'up': [p], 'n': n, 'keep': self.pick(['first', 'last'])}
            if k is not None:
                node['key'] = k
            self.add(node, ('fix', tuple(t for _ in range(n))))
            return True
        if op == 'sliding_window':
            p = self.pick(anyp)
            t = self.types[p]
            n = self.small_n()
            partial = self.chance(0.5)
            self.add({'op': 'sliding_window', 'up': [p], 'n': n, 'partial': partial},
                     ('var', 1, t) if partial else ('fix', tuple(t for _ in range(n))))
            return True
        if op == 'unique':
            p = self.pick(anyp)
            t = self.types[p]
            node = {'op': 'unique', 'up': [p]}
            k = self.key_spec(t)
            if k is None or k == ['ident']:
                if not hashable(t):
                    if self.chance(0.5):
                        node['hashable'] = False
                    else:
                        node['key'] = ['wmod', 3]
            elif k[0] == 'index':
                node['key'] = ['idx', k[1]]
            else:
                node['key'] = k
            if self.chance(0.5):
                node['maxsize'] = self.pick([1, 2, 3])
            if node.get('hashable') is None and self.chance(0.2) and (hashable(t) or 'key' in node):
                node['hashable'] = False
            self.add(node, t)
            return True
        if op == 'flatten':
            c = self.candidates(iterable)
            if not c:
                return False
            p = self.pick(c)
            t = self.types[p]
            if t[0] == 'fix':
                ms = set(t[1])
                out = t[1][0] if len(ms) == 1 else ('any', all(hashable(x) for x in t[1]))
            else:
                out = member(t, 0)
            self.add({'op': 'flatten', 'up': [p]}, out)
            return True
        if op == 'pluck':
            c = self.candidates(lambda t: minlen(t) >= 1 and t[0] in ('fix', 'var'))
            if not c:
                return False
            p = self.pick(c)
            t = self.types[p]
            L = minlen(t)

            def idx():
                i = r.randrange(L)
                # negative indices only where the length is fixed (they then name the same member)
                return i - L if (t[0] == 'fix' and self.chance(0.25)) else i
            if self.chance(0.4):
                picks = [idx() for _ in range(self.pick([1, 1, 2, 3]))]
                self.add({'op': 'pluck', 'up': [p], 'pick': picks}, ('fix', tuple(member(t, i) for i in picks)))
            else:
                i = idx()
                self.add({'op': 'pluck', 'up': [p], 'pick': i}, member(t, i))
            return True
        if op == 'collect':
            p = self.pick(anyp)
            node = {'op': 'collect', 'up': [p]}
            if self.pf.get('collect_cache') and self.chance(0.3):
                node['cache_maxlen'] = self.pick([1, 2, 3])
            self.add(node, ('var', 0, self.types[p]))
            return True
        if op in ('union', 'zip', 'combine_latest', 'zip_latest'):
            if len(anyp) < 2:
                return False
            k = 2 if self.chance(0.75) or len(anyp) < 3 else 3
            ps = r.sample(anyp, k)
            ts = [self.types[p] for p in ps]
            if op == 'union':
                t = ts[0] if all(x == ts[0] for x in ts) else ('any', all(hashable(x) for x in ts))
                self.add({'op': 'union', 'up': ps}, t)
            elif op == 'zip':
                node = {'op': 'zip', 'up': ps}
                if self.chance(0.6):
                    node['maxsize'] = self.pick([0, 1, 1, 2, 3])
                members = list(ts)
                if self.chance(0.3):
                    # one or two literal arguments, anywhere among the streams (positions in the emitted tuple)
                    nl = 2 if self.chance(0.4) else 1
                    positions = sorted(r.sample(range(len(ps) + nl), nl))
                    node['literals'] = {str(q): r.randrange(1, 9) for q in positions}
                    rest = list(members)
                    members = [INT if q in positions else rest.pop(0) for q in range(len(ps) + nl)]
                self.add(node, ('fix', tuple(members)))
            elif op == 'combine_latest':
                node = {'op': 'combine_latest', 'up': ps}
                if self.chance(0.5):
                    cnt = r.randrange(1, len(ps) + 1)
                    node['emit_on'] = sorted(r.sample(range(len(ps)), cnt))
                    if self.chance(0.5):
                        node['emit_on_index'] = True
                    if cnt == 1 and self.chance(0.5):
                        node['emit_on_scalar'] = True
                self.add(node, ('fix', tuple(ts)))
            else:
                self.add({'op': 'zip_latest', 'up': ps}, ('fix', tuple(ts)))
            return True
        if op == 'buffer':
            p = self.pick(anyp)
            self.add({'op': 'buffer', 'up': [p], 'n': self.small_n()}, self.types[p])
            return True
        if op in ('delay', 'rate_limit'):
            # a ticking source in front of a rate limiter is an unbounded queue: not generated
            calm = [c for c in anyp if not self.ticking(c)]
            if not calm:
                return False
            p = self.pick(calm)
            iv = self.pick(INTERVALS)
            if op == 'rate_limit' and self.chance(0.1):
                iv = 0.001        # a 1 kHz cap: waits at the resolution of the loop's timers are waits all the same
            self.add({'op': op, 'up': [p], 'interval': iv}, self.types[p])
            return True
        if op == 'map_async':
            p = self.pick(anyp)
            t = self.types[p]
            if self.chance(0.2):
                # jobs whose result is sometimes falsy (0 / ()): "nothing to wait for" must not be read off the value
                m = self.pick([2, 2, 3])
                fn, rt = ['falsy', m, r.randrange(m), self.pick([0, 1, 2])], ('any', hashable(t))
            else:
                fn, rt = ['tag', r.randrange(1, 9)], ('fix', (INT, t))
            self.add({'op': 'map_async', 'up': [p], 'fn': fn,
                      'parallelism': self.pick([1, 1, 2, 3, 4]), 'kind': self.pick(['native', 'tornado']),
                      'lat': self.lat_list()}, rt)
            return True
        if op == 'timed_window':
            p = self.pick(anyp)
            self.add({'op': 'timed_window', 'up': [p], 'interval': self.pick(INTERVALS)}, ('list', self.types[p]))
            return True
        if op == 'timed_window_unique':
            p = self.pick(anyp)
            t = self.types[p]
            k = self.key_spec(t)
            if k is None and not hashable(t):
                k = ['wmod', 2]
            node = {'op': 'timed_window_unique', 'up': [p], 'interval': self.pick(INTERVALS),
                    'keep': self.pick(['first', 'last'])}
            if k is not None:
                node['key'] = k if k[0] != 'index' else ['idx', k[1]]
            self.add(node, ('var', 0, t))
            return True
        if op == 'latest':
            p = self.pick(anyp)
            self.add({'op': 'latest', 'up': [p]}, self.types[p])
            return True
        return False

    def lat_list(self):
        n = self.pick([1, 2, 3])
        # (12 s: longer than the 10 s slices in which a blocking emit polls for completion)
        return [self.pick([None, 0, 0.25, 0.5, 1, 2, 5, 12] if self.chance(0.15) else [None, 0, 0.25, 0.5, 1, 2, 5]) for _ in range(n)]

    def add_sink(self, p, mode):
        kinds = self.pf['sinks'] if mode != 'loopless' else ['sync']
        kind = self.pick(kinds)
        if kind == 'future' and self.chance(0.3):
            # the consumer hands back an object that can be awaited but is neither a Future nor a coroutine
            # (a client library's request object, a distributed.Future)
            kind = 'awaitable'
        node = {'op': 'sink', 'up': [p], 'kind': kind}
        if kind != 'sync':
            node['lat'] = self.lat_list()
        elif self.pf.get('lazy_attach') and self.chance(0.15):
            node['attach_on_first'] = True
        self.add(node, None)

    def scenario(self, seed, index):
        r = self.r
        pf = self.pf
        big = self.size == 'thorough'
        mode = self.pick(pf['modes'])
        pool = list(pf['pool'])
        if mode == 'loopless':
            pool = [o for o in pool if o in SYNC_OPS and o != 'partition']
        if mode == 'threaded':
            # collect.flush() called from the caller thread while the loop thread runs the
            # pipeline is a data race in the user's program, not a streamz schedule
            pool = [o for o in pool if o != 'collect']
        # swarm: a random subset of the node kinds is enabled in this run
        enabled = [o for o in pool if self.chance(0.6)] or [self.pick(pool)]
        need = [o for o in pf.get('need', []) if o in pool and o != 'sink_async']
        if need:
            must = self.pick(need)
            if must not in enabled:
                enabled.append(must)
        else:
            must = None
        n_entries = self.pick([1, 1, 1, 2, 2, 3])
        for _ in range(n_entries):
            self.add({'op': 'source'}, INT)
        if pf.get('falsy_dedup') and mode != 'loopless' and self.chance(0.12):
            # falsy values (0 / ()) meeting a de-duplicating window: "empty" must not be taken for "absent"
            m = self.pick([1, 2])
            f = self.add({'op': 'map', 'up': [0], 'fn': ['falsy', self.pick([2, 3]), 0, self.pick([0, 1, 2])]}, ('any', True))
            self.add({'op': 'timed_window_unique', 'up': [f], 'interval': self.pick(INTERVALS), 'keep': self.pick(['first', 'last', 'last']),
                      'key': ['wmod', m]}, ('var', 0, ('any', True)))
        if pf.get('falsy_dedup') and self.chance(0.12):
            m = self.pick([1, 2])
            f = self.add({'op': 'map', 'up': [0], 'fn': ['falsy', self.pick([2, 3]), 0, self.pick([0, 1, 2])]}, ('any', True))
            self.add({'op': 'partition_unique', 'up': [f], 'n': m, 'keep': self.pick(['first', 'last', 'last']), 'key': ['wmod', m]},
                     ('fix', tuple(('any', True) for _ in range(m))))
        if pf.get('flatten_serial') and mode != 'loopless' and self.chance(0.12):
            # one element split into pieces that are then handled strictly one after the other:
            # src -> map(k tagged copies) -> flatten -> buffer -> slow consumer
            f = self.add({'op': 'map', 'up': [0], 'fn': ['fanout', self.pick([2, 3])]}, ('var', 0, ('any', True)))
            fl = self.add({'op': 'flatten', 'up': [f]}, ('any', True))
            b = self.add({'op': self.pick(['buffer', 'buffer', 'delay']), 'up': [fl], 'n': self.pick([1, 2, 5]),
                          'interval': self.pick(INTERVALS)}, ('any', True))
            self.add({'op': 'sink', 'up': [b], 'kind': self.pick(['native', 'tornado', 'future']),
                      'lat': [self.pick([0.25, 0.5, 1, 2]) for _ in range(self.pick([1, 2, 3]))]}, None)
        rolling_collect = False
        if pf.get('collect_md_cache') and self.chance(0.12):
            # a rolling "last k" collector: caller-supplied bounded caches for the elements and for their metadata
            # (every element of entry 0 carries exactly one metadata dict, so the two roll in lock-step)
            k = self.pick([1, 2, 3])
            self.add({'op': 'collect', 'up': [0], 'cache_maxlen': k, 'md_cache_maxlen': k}, ('var', 0, INT))
            rolling_collect = True
        feedback = []
        if pf.get('feedback') and self.chance(0.15):
            # feedback template: src -> unique -> map(x -> (x+1, x+2) while x < K) -> flatten -> back into src
            src = 0
            if n_entries >= 2 and self.chance(0.3):
                # a combiner inside the cycle (the recurrence x[n+1] = f(x[n], b[n])):
                # src0, src1 -> zip -> map(bounded int) -> unique -> back into src0
                z = self.add({'op': 'zip', 'up': [0, 1]}, ('fix', (INT, INT)))
                g = self.add({'op': 'map', 'up': [z], 'fn': ['wcap', self.pick([3, 5, 8])]}, INT)
                u = self.add({'op': 'unique', 'up': [g]}, INT)
                feedback.append({'from': u, 'to': src})
            elif self.chance(0.3):
                # a stateful node inside the cycle: src -> accumulate(bounded total) -> unique -> back into src;
                # every emission of the accumulator re-enters it before its own _emit has returned
                node = {'op': 'accumulate', 'up': [src], 'fn': ['addcap', self.pick([3, 5, 8])]}
                if self.chance(0.5):
                    node['start'] = TOKEN_BASE + r.randrange(3)
                a = self.add(node, INT)
                u = self.add({'op': 'unique', 'up': [a]}, INT)
                feedback.append({'from': u, 'to': src})
            else:
                K = TOKEN_BASE + self.pick([3, 5, 8])
                u = self.add({'op': 'unique', 'up': [src]}, INT)
                fn = ['grow', K] if self.chance(0.5) else ['growback', K, TOKEN_BASE]
                g = self.add({'op': 'map', 'up': [u], 'fn': fn}, ('var', 0, INT))
                fl = self.add({'op': 'flatten', 'up': [g]}, INT)
                feedback.append({'from': fl, 'to': src})
        target = r.randrange(1, 11 if big else 8)
        tries = 0
        placed_must = must is None
        while len(self.graph) - n_entries < target and tries < 60:
            tries += 1
            op = must if (not placed_must and self.chance(0.5)) else self.pick(enabled)
            if self.try_add(op) and op == must:
                placed_must = True
        if not placed_must:
            self.try_add(must)
        # sinks on every leaf, and on a few inner nodes
        has_child = set(u for n in self.graph for u in n.get('up', []))
        for n in list(self.graph):
            if n['op'] == 'sink':
                continue
            if n['id'] not in has_child or self.chance(0.15):
                self.add_sink(n['id'], mode)
        if pf.get('forward') and self.chance(0.2):
            # the idiom a.sink(b.emit): one synchronous sink on an int-typed node forwards into another entry point
            srcs = [n['id'] for n in self.graph if n['op'] == 'source']

            def ancestors(nid, acc):
                for u in self.graph[nid].get('up', []):
                    if u not in acc:
                        acc.add(u)
                        ancestors(u, acc)
                return acc
            cands = []
            for n in self.graph:
                if n['op'] == 'sink' and n.get('kind', 'sync') == 'sync' and self.types.get(n['up'][0]) == INT:
                    anc = ancestors(n['id'], set())
                    if mode == 'threaded' and any(self.graph[a]['op'] in LOOPY_FOR_FORWARD for a in anc):
                        # below a forwarding coroutine the nested emit would be a *blocking* emit issued from the loop
                        # thread - which streamz cannot serve (sync() from the loop thread); not a schedule, a misuse
                        continue
                    ts = [t for t in srcs if t not in anc]
                    if ts:
                        cands.append((n, ts))
            if cands and not feedback:
                n, ts = self.pick(cands)
                n['kind'] = 'emit_into'
                n['target'] = self.pick(ts)
                rest = [c for c in cands if c[0] is not n and n['target'] in c[1]]
                if rest and self.chance(0.5):
                    # a second consumer forwarding into the same entry point (no cycle can arise that way): one
                    # outer element may then cause several nested emits
                    n2, ts2 = self.pick(rest)
                    n2['kind'] = 'emit_into'
                    n2['target'] = n['target']
        if pf.get('forward') and mode == 'threaded' and not feedback and self.chance(0.15):
            # two consumers of one element that both forward into a second loop-bound pipeline: several nested
            # emits on the loop thread within one outer blocking emit
            a = self.add({'op': 'source'}, INT)
            b = self.add({'op': 'source'}, INT)
            ab = self.add({'op': 'buffer', 'up': [a], 'n': self.pick([1, 2, 5])}, INT)
            self.add_sink(ab, mode)
            bb = self.add({'op': 'buffer', 'up': [b], 'n': self.pick([1, 2, 5])}, INT)
            self.add_sink(bb, mode)
            for _ in range(self.pick([2, 2, 3])):
                self.add({'op': 'sink', 'up': [a], 'kind': 'emit_into', 'target': b}, None)
        if pf.get('feedback_sink') and mode == 'async' and not feedback and self.chance(0.3):
            # a consumer below `latest` that reacts to an (original) element by emitting one follow-up element into
            # the entry point above it: the follow-up arrives at latest while latest is in the middle of delivering
            def ancestors2(nid, acc):
                for u in self.graph[nid].get('up', []):
                    if u not in acc:
                        acc.add(u)
                        ancestors2(u, acc)
                return acc
            cands = []
            for n in self.graph:
                if n['op'] == 'sink' and n.get('kind', 'sync') == 'sync' and self.types.get(n['up'][0]) == INT:
                    anc = ancestors2(n['id'], set())
                    if any(self.graph[a]['op'] == 'latest' for a in anc):
                        ents = [a for a in anc if self.graph[a]['op'] == 'source']
                        if ents:
                            cands.append((n, ents))
            if cands:
                n, ents = self.pick(cands)
                n['kind'] = 'emit_into'
                n['target'] = self.pick(ents)
                n['back'] = True
        if mode == 'async':
            # an entry that is only ever joined into the pipeline may be a plain Stream(): it inherits loop and
            # mode from the pipeline it extends (C19) and must then behave like every other entry
            joins = ('union', 'zip', 'combine_latest', 'zip_latest')
            srcs = [n for n in self.graph if n['op'] == 'source']
            for sn in srcs[1:]:
                kids = [n for n in self.graph if sn['id'] in n.get('up', [])]
                if kids and all(k['op'] in joins for k in kids) and \
                        all(any(u != sn['id'] and not (self.graph[u]['op'] == 'source' and self.graph[u].get('unbound')) for u in k['up'])
                            for k in kids) and self.chance(0.5):
                    sn['unbound'] = True
        if pf.get('late_feeder') and mode == 'threaded' and not feedback and self.chance(0.3):
            # a second, plain entry point connected to a `latest` node after the pipeline was built: it has no loop
            # of its own, so what is emitted there reaches the node on the caller's thread
            lat = [n for n in self.graph if n['op'] == 'latest']
            if lat:
                fsrc = self.add({'op': 'source'}, INT)
                feedback.append({'from': fsrc, 'to': self.pick(lat)['id']})
        # producers
        entries = [n['id'] for n in self.graph if n['op'] == 'source']
        producers = []
        collects = [n['id'] for n in self.graph if n['op'] == 'collect']
        n_items_max = 25 if big else 12
        for e in entries:
            nprod = 1 if (pf.get('await_all') or self.chance(0.8)) else 2
            for _ in range(nprod):
                pid = len(producers)
                aw = True if pf.get('await_all') else self.chance(0.6)
                items = []
                burst = pf.get('bursts') and self.chance(0.5)
                for k in range(r.randrange(2, n_items_max + 1)):
                    gap = self.pick([0, 0, 0, 0.25]) if burst and self.chance(0.7) else self.pick(GRID)
                    if pf.get('off_grid') and gap >= 0.25 and self.chance(0.15):
                        gap -= 0.0005      # just short of a boundary on the grid every interval sits on
                    it = {'gap': gap, 'v': TOKEN_BASE + pid * 1000 + k}
                    if self.chance(pf['md']):
                        it['md'] = self.pick([1, 1, 1, 2])
                        if not pf.get('refs') and self.chance(0.3):
                            it['ref'] = False
                    items.append(it)
                    if collects and self.chance(0.2):
                        items.append({'gap': self.pick(GRID), 'flush': self.pick(collects)})
                    if pf.get('restarts') and mode == 'async' and not feedback and k > 0 and self.chance(0.06):
                        # p.start() called again while data is flowing (it travels upstream through every node)
                        leaves = [n['id'] for n in self.graph if n['id'] not in
                                  set(u for m in self.graph for u in m.get('up', []))]
                        items.append({'gap': self.pick(GRID), 'restart': self.pick(leaves), 'how': self.pick(['start', 'start', 'stop_start'])})
                producers.append({'entry': e, 'await': aw, 'start': self.pick([0, 0, 0.25, 1]), 'items': items})
        if collects:
            producers[0]['items'].append({'gap': 0, 'flush': self.pick(collects)})
        if rolling_collect:
            for p in producers:
                if p['entry'] == 0:
                    for it in p['items']:
                        if 'flush' not in it:
                            it['md'] = 1
        if mode == 'threaded':
            for p in producers:
                p['await'] = True          # a blocking emit always waits
            from .build import needs_loop
            # per connected pipeline: where nothing makes streamz create a loop, emit runs on the
            # caller's stack and cannot wait for awaitables - like loop-less mode, synchronous sinks only
            adj = {}
            for n in self.graph:
                if n['op'] == 'slice' and n.get('end') == 0:
                    continue        # slice(end=0) detaches itself from its parent as soon as it is built
                for u in n.get('up', []):
                    adj.setdefault(u, set()).add(n['id'])
                    adj.setdefault(n['id'], set()).add(u)
            seen = set()
            for n0 in self.graph:
                if n0['id'] in seen:
                    continue
                comp, todo = set(), [n0['id']]
                while todo:
                    x = todo.pop()
                    if x in comp:
                        continue
                    comp.add(x)
                    todo.extend(adj.get(x, ()))
                seen |= comp
                if not needs_loop([n for n in self.graph if n['id'] in comp and n['op'] != 'sink']):
                    for n in self.graph:
                        if n['id'] in comp and n['op'] == 'sink':
                            n['kind'] = 'sync'
                            n.pop('lat', None)
        stalls = []
        if pf.get('stalls') and mode != 'loopless' and self.chance(0.2):
            # a user function that blocks the whole loop for a while (the docs' time.sleep in a map):
            # every timer due in the meantime fires late and in one go
            fnodes = [n for n in self.graph if n['op'] in ('map', 'filter', 'accumulate', 'starmap', 'sink')]
            for _ in range(r.randrange(1, 4)):
                if fnodes:
                    stalls.append({'node': self.pick(fnodes)['id'], 'call': r.randrange(0, 8), 'dur': self.pick([0.25, 0.5, 1, 2, 5])})
        fails = []
        if pf.get('inject_failures') and self.chance(0.3):
            # a consumer (or a map_async job) that raises: its element must never be reported complete
            # (... or the key function of a partition: its update() is a coroutine too, so the exception does not
            #  unwind the emitting calls, it travels in the awaitable)
            targets = [n for n in self.graph if (n['op'] == 'sink' and n.get('kind', 'sync') != 'sync') or n['op'] == 'map_async'
                       or (n['op'] == 'partition' and n.get('key'))]
            for _ in range(r.randrange(1, 3)):
                if targets:
                    n = self.pick(targets)
                    fails.append({'node': n['id'], 'call': r.randrange(0, 6),
                                  'when': self.pick(['pre', 'post']) if n.get('kind') in ('native', 'tornado') else 'pre'})
                    if n['op'] == 'map_async' and self.chance(0.3):
                        fails[-1]['when'] = 'call'
        if pf.get('fail_below_rate_limit') and self.chance(0.15):
            # a consumer right below a rate_limit raises once and the producers carry on: a delivery that failed
            # is a delivery all the same - the next element keeps its distance
            below = [n for n in self.graph if n['op'] == 'sink' and n.get('kind') != 'emit_into'
                     and self.graph[n['up'][0]]['op'] == 'rate_limit']
            if below:
                n = self.pick(below)
                fails.append({'node': n['id'], 'call': r.randrange(0, 5),
                              'when': self.pick(['pre', 'post']) if n.get('kind') in ('native', 'tornado') else 'pre'})
        if pf.get('window_survives_failure') and mode == 'loopless' and not feedback and self.chance(0.25):
            # a consumer below a sliding_window (or a collector) raises once and the producer carries on: the windows
            # (batches) that follow must still carry the metadata of exactly their own members
            below = [n for n in self.graph if n['op'] == 'sink' and n.get('kind', 'sync') == 'sync'
                     and self.graph[n['up'][0]]['op'] in ('sliding_window', 'collect')]
            if below:
                fails.append({'node': self.pick(below)['id'], 'call': r.randrange(0, 5), 'when': 'pre'})
        sc = {'format': 1, 'family': 'pipeline', 'property': self.prop, 'seed': seed, 'index': index,
              'mode': mode, 'sched_seed': r.randrange(10000), 'tiebreak': self.pick(['fifo', 'fifo', 'lifo', 'seeded']),
              'tiebreak_seed': r.randrange(1000), 'graph': self.graph, 'producers': producers,
              'faults': {'stalls': stalls, 'fail': fails}}
        if feedback:
            sc['feedback'] = feedback
        elif self.chance(0.2):
            sc['start_leaves'] = True
        if pf.get('late_subscriber') and mode == 'async' and self.chance(0.2):
            # a consumer that subscribes to `latest` only after the pipeline has been running for a while
            for n in self.graph:
                if n['op'] == 'latest':
                    kids = [m for m in self.graph if n['id'] in m.get('up', [])]
                    if len(kids) == 1 and kids[0]['op'] == 'sink' and kids[0].get('kind') != 'emit_into':
                        kids[0]['attach_at'] = self.pick([0.25, 0.5, 1, 2, 5])
                        break
        if mode == 'async' and self.chance(pf.get('emit_at_once', 0.12)):
            sc['emit_at_once'] = True       # first elements pushed before the loop has had a turn
        if mode == 'threaded' and self.chance(0.25):
            # every caller thread has run (and seen fail) an asynchronous pipeline of its own before
            sc['prelude_failed_emit'] = True
        return sc


def generate(rng, prop, seed, index, size='quick'):
    return G(rng, prop, size).scenario(seed, index)
