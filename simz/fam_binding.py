"""C19 - one event loop per pipeline; asynchronous pipelines never leave the
caller's loop; conflicting explicit requests raise; loop-needing nodes with
nothing inherited or given share the background loop (one thread)."""
import asyncio
import copy

from . import loop as simloop
from .trace import Recorder
from .oracles import Violation
from .fam_pipeline import Outcome

LEVEL = {'C19': 'exploration'}
CHUNK = {'C19': 60}
COMPONENTS = {
    'real': ['streamz.core.Stream.__init__ / _set_loop / _inform_loop / _set_asynchronous / _inform_asynchronous / get_io_loop',
             'constructors of buffer, delay, rate_limit, timed_window, latest, partition, sliding_window, unique, union, sink and of the sources',
             'tornado IOLoop wrappers, asyncio scheduling'],
    'stub': ['loops created by streamz -> SimLoop (event-loop policy)', 'threading.Thread.start in streamz.core -> recorded, not run',
             'file / glob / iterator / callback fakes for the sources'],
}
ASSUMPTIONS = {'C19': ['effective mode is compared as bool(asynchronous) (a child of a blocking pipeline reports None)',
                       'only chains are built (joining two pipelines that are already bound differently is not judged)',
                       'the state left behind by a constructor that raised is not inspected; the scenario ends there',
                       'data flow is exercised on asynchronous pipelines (blocking pipelines need the caller-thread emulation of C03/C16)']}
RULE = {'C19': 'sequences of constructors (Stream, plain nodes, loop-requiring nodes, sinks, every source type) in every order, each '
               'given asynchronous in {None, True, False} and loop in {None, caller\'s, another} where its signature accepts them, '
               'several independent pipelines per scenario. Non-trivial = at least one explicit request or loop-requiring node; '
               'distinct = distinct constructor/argument sequences'}

PLAIN = ['map', 'sliding_window', 'unique', 'union1', 'sink']          # do not need a loop
LOOPY = ['buffer', 'delay', 'rate_limit', 'timed_window', 'latest', 'partition', 'map_async']   # ensure_io_loop
SOURCES = ['from_iterable', 'from_periodic', 'from_textfile', 'filenames', 'from_kafka_batched']
SOURCE_CLASSES = SOURCES + ['FromKafkaBatched']
ACCEPTS_KW = {'stream', 'sliding_window', 'unique', 'union1', 'sink', 'buffer', 'delay', 'rate_limit',
              'timed_window', 'latest', 'partition'} | set(SOURCES)


class _Thread:
    count = 0

    def __init__(self, target=None, **kw):
        self.target = target
        self.daemon = False

    def start(self):
        _Thread.count += 1
        _Thread.rec.rec('thread_start', _Thread.count)


def run_binding(sc):
    simloop.install_seams()
    import threading as real_threading
    import types
    import streamz.core
    import streamz.sources
    from streamz import Stream
    from tornado.ioloop import IOLoop
    lp = simloop.new_loop()
    lp.step_cap = 200_000
    rec = Recorder(lp)
    _Thread.count = 0
    _Thread.rec = rec
    shim = types.SimpleNamespace(Thread=_Thread, Event=real_threading.Event, local=real_threading.local,
                                 get_ident=real_threading.get_ident, current_thread=real_threading.current_thread)
    streamz.core.threading = shim
    real_dask_client = streamz.core._dask_default_client
    V = []
    info = {'explicit': 0, 'loopy': 0, 'flow': 0, 'raised_ok': 0, 'bg': 0}
    keep = []

    S = {}

    def construct():
        """the constructor phase; runs either inside the running caller loop or - 'outside' - in plain
        synchronous code before the loop runs (module-level pipeline set-up in a script)"""
        caller = IOLoop.current()
        other = IOLoop(make_current=False)
        loops = {'caller': caller, 'other': other, None: None}
        if sc.get('dask_client'):
            # the process has a (synchronous) default Dask client with a loop of its own: blocking pipelines
            # share that loop instead of starting a thread; asynchronous ones stay on the caller's loop
            client_loop = IOLoop(make_current=False)
            S['client_loop'] = client_loop
            streamz.core._dask_default_client = lambda: types.SimpleNamespace(loop=client_loop)
        chains = {}        # chain id -> dict(nodes, loop (model: None/'caller'/'other'/'bg'), mode (None/True/False), root)
        bg_loop = [None]
        seen_cb_loops = []
        S.update(caller=caller, other=other, chains=chains, seen=seen_cb_loops)

        def user_fn(x):
            try:
                seen_cb_loops.append(asyncio.get_running_loop())
            except RuntimeError:
                seen_cb_loops.append(None)
            return x

        S['user_fn'] = user_fn

        async def user_coro(x):
            return user_fn(x)

        S['user_coro'] = user_coro
        for si, st in enumerate(sc['steps']):
            kind = st['kind']
            a = st.get('asynchronous')
            lname = st.get('loop')
            ch = chains.get(st['chain'])
            kw = {}
            if a is not None:
                kw['asynchronous'] = a
            if lname is not None:
                kw['loop'] = loops[lname]
            if kw:
                info['explicit'] += 1
            needs = kind in LOOPY or kind in SOURCES
            if needs:
                info['loopy'] += 1
            ch2 = chains.get(st.get('other')) if kind == 'join' else None
            if kind == 'join' and (ch is None or ch2 is None or ch is ch2):
                continue           # (a scenario produced by shrinking may have lost one side)
            # ---- model -------------------------------------------------
            m_loop = ch['loop'] if ch else None
            m_mode = ch['mode'] if ch else None
            conflict = False
            if kind == 'join':
                # joining two pipelines: bound to different loops (or to different modes) must raise;
                # otherwise the unbound side takes loop and mode of the bound one
                l2, md2 = ch2['loop'], ch2['mode']
                if m_loop is not None and l2 is not None and m_loop != l2:
                    conflict = True
                if m_mode is not None and md2 is not None and bool(m_mode) != bool(md2):
                    conflict = True
                m_loop = m_loop or l2
                m_mode = m_mode if m_mode is not None else md2
            if lname is not None and m_loop is not None and lname != m_loop:
                conflict = True
            if a is not None and m_mode is not None and a != m_mode:
                conflict = True
            n_loop = lname or m_loop
            n_mode = a if a is not None else m_mode
            if a is True and n_loop in ('other', 'bg'):
                conflict = conflict or (n_loop == 'bg')
            if not conflict:
                if n_loop is None and (needs or n_mode is not None):
                    if n_mode is True:
                        n_loop = 'caller'
                    else:
                        n_loop = 'bg'
                        n_mode = False
                if n_loop is not None and n_mode is None:
                    # a loop was given without a mode: the mode stays open until something decides it
                    pass
            # ---- real --------------------------------------------------
            raised = None
            node = None
            try:
                up = ch['nodes'][st.get('parent', -1)] if ch else None
                if kind == 'stream':
                    node = Stream(**kw)
                elif kind == 'map':
                    node = up.map(user_fn)
                elif kind == 'sliding_window':
                    node = up.sliding_window(2, **kw)
                elif kind == 'unique':
                    node = up.unique(**kw)
                elif kind == 'union1':
                    node = up.union(**kw)
                elif kind == 'join':
                    up2 = ch2['nodes'][st.get('other_parent', -1)]
                    node = up.union(up2) if st.get('how', 'union') == 'union' else up.zip(up2)
                elif kind in ('sink', 'sink_needs'):
                    node = up.sink(user_fn, **kw)
                elif kind == 'buffer':
                    # (from_textfile has a data attribute called buffer that shadows the method)
                    node = streamz.core.buffer(up, 2, **kw)
                elif kind == 'delay':
                    node = up.delay(0.5, **kw)
                elif kind == 'rate_limit':
                    node = up.rate_limit(0.5, **kw)
                elif kind == 'timed_window':
                    node = up.timed_window(1, **kw)
                elif kind == 'latest':
                    node = up.latest(**kw)
                elif kind == 'partition':
                    node = up.partition(2, **kw)
                elif kind == 'map_async':
                    # (its keyword arguments go to the mapped function: no loop= / asynchronous= of its own)
                    node = up.map_async(S['user_coro'])
                elif kind == 'from_iterable':
                    node = Stream.from_iterable([1, 2, 3], **kw)
                elif kind == 'from_periodic':
                    node = Stream.from_periodic(lambda: 1, poll_interval=1, **kw)
                elif kind == 'from_textfile':
                    from .srcsim import FakeFile
                    node = Stream.from_textfile(FakeFile(Recorder(None), 'a\nb\n'), poll_interval=1, **kw)
                elif kind == 'filenames':
                    streamz.sources.glob = lambda p: ['/data/a']
                    node = Stream.filenames('/data/*', poll_interval=1, **kw)
                elif kind == 'from_kafka_batched':
                    # (two messages wait on the one partition of an in-memory broker: the batch is emitted with a
                    # reference counter whose callback commits the offset - on whichever loop that counter chose)
                    from . import fam_kafka
                    fam_kafka.simple_env(rec, lp)
                    node = Stream.from_kafka_batched('t', {'bootstrap.servers': 'fake', 'group.id': 'g',
                                                          'auto.offset.reset': 'earliest'},
                                                     poll_interval=1, npartitions=1, **kw).upstreams[0]
                else:
                    raise ValueError(kind)
            except ValueError as e:
                raised = e
            rec.rec('construct', si, kind, repr(a), lname, 'raised' if raised else 'ok', _Thread.count)
            desc = '%s(%s)' % (kind, ', '.join('%s=%s' % (k, ('<%s loop>' % lname) if k == 'loop' else v) for k, v in kw.items()))
            where = 'step %d %s extending a pipeline bound to loop=%s mode=%s' % (si, desc, m_loop, m_mode) if ch else 'step %d %s' % (si, desc)
            if conflict:
                if raised is None:
                    V.append(Violation('C19', 'C19.no_raise', len(rec.events) - 1,
                                       '%s: the request conflicts with the pipeline but no error was raised (node.loop=%s, asynchronous=%r)'
                                       % (where, _lname(node.loop, loops, bg_loop), node.asynchronous), node_op=kind))
                else:
                    info['raised_ok'] += 1
                return      # state after a refused constructor is not inspected
            if raised is not None:
                V.append(Violation('C19', 'C19.spurious_raise', len(rec.events) - 1,
                                   '%s: nothing conflicts, yet the constructor raised ValueError(%s)' % (where, str(raised)[:80]), node_op=kind))
                return
            keep.append(node)
            if ch is None:
                ch = chains[st['chain']] = {'nodes': [], 'loop': None, 'mode': None}
            if kind == 'join':
                # the two pipelines are one from now on
                ch['nodes'].extend(ch2['nodes'])
                for cid in list(chains):
                    if chains[cid] is ch2:
                        chains[cid] = ch
            ch['nodes'].append(node)
            ch['loop'], ch['mode'] = n_loop, n_mode
            # ---- compare -------------------------------------------------
            if n_loop == 'bg' and bg_loop[0] is None and node.loop is not None and node.loop not in (caller, other):
                bg_loop[0] = node.loop
                info['bg'] += 1
                if sc.get('dask_client') and node.loop is not S['client_loop']:
                    V.append(Violation('C19', 'C19.shared_loop', len(rec.events) - 1,
                                       '%s: a default Dask client exists, yet the blocking pipeline got a loop that is not the client\'s' % where,
                                       node_op=kind))
                    return
            exp_loop = {'caller': caller, 'other': other, 'bg': bg_loop[0], None: None}[n_loop]
            for nd in ch['nodes']:
                if nd.loop is None and exp_loop is not None:
                    V.append(Violation('C19', 'C19.split', len(rec.events) - 1,
                                       '%s: the pipeline is bound to %s but its node %s has no loop (emit there would run outside the loop)'
                                       % (where, n_loop, type(nd).__name__), node_op=kind))
                    return
                if nd.loop is not None and exp_loop is not None and nd.loop is not exp_loop:
                    V.append(Violation('C19', 'C19.split' if a is not True else 'C19.async_off_loop', len(rec.events) - 1,
                                       '%s: node %s of the pipeline is bound to %s, the pipeline to %s'
                                       % (where, type(nd).__name__, _lname(nd.loop, loops, bg_loop), n_loop), node_op=kind))
                    return
            bound = [nd.loop for nd in ch['nodes'] if nd.loop is not None]
            if any(b is not bound[0] for b in bound):
                V.append(Violation('C19', 'C19.split', len(rec.events) - 1,
                                   '%s: the nodes of one pipeline are bound to different loops %r'
                                   % (where, [_lname(b, loops, bg_loop) for b in bound]), node_op=kind))
                return
            if needs and node.loop is None:
                V.append(Violation('C19', 'C19.shared_loop', len(rec.events) - 1, '%s: a node that needs a loop has none' % where, node_op=kind))
                return
            modes = set(bool(nd.asynchronous) for nd in ch['nodes'] if nd.asynchronous is not None)
            if len(modes) > 1:
                V.append(Violation('C19', 'C19.split', len(rec.events) - 1,
                                   '%s: nodes of one pipeline disagree on asynchronous: %r' % (where, [nd.asynchronous for nd in ch['nodes']]), node_op=kind))
                return
            if n_mode is True:
                lazy = [type(nd).__name__ for nd in ch['nodes'] if nd.asynchronous is not True]
                if lazy:
                    V.append(Violation('C19', 'C19.split', len(rec.events) - 1,
                                       '%s: the pipeline is asynchronous but %r did not inherit the mode (asynchronous=%r): emit at that node would block'
                                       % (where, lazy, [nd.asynchronous for nd in ch['nodes']]), node_op=kind))
                    return
                if node.loop is not None and node.loop is not caller and n_loop == 'caller':
                    V.append(Violation('C19', 'C19.async_off_loop', len(rec.events) - 1,
                                       '%s: declared asynchronous but bound to %s instead of the caller\'s current loop'
                                       % (where, _lname(node.loop, loops, bg_loop)), node_op=kind))
                    return
                if a is True and node.asynchronous is not True:
                    V.append(Violation('C19', 'C19.async_off_loop', len(rec.events) - 1,
                                       '%s: declared asynchronous but node.asynchronous is %r (loop %s)'
                                       % (where, node.asynchronous, _lname(node.loop, loops, bg_loop)), node_op=kind))
                    return
            want_threads = 1 if any(c['loop'] == 'bg' for c in chains.values()) and not sc.get('dask_client') else 0
            if _Thread.count != want_threads:
                V.append(Violation('C19', 'C19.thread_started' if want_threads == 0 else 'C19.shared_loop', len(rec.events) - 1,
                                   '%s: %d background loop thread(s) requested in total, expected %d'
                                   % (where, _Thread.count, want_threads), node_op=kind))
                return
    async def main():
        if not sc.get('outside'):
            construct()
        if V:
            return
        caller, other, chains, seen_cb_loops, user_fn = S['caller'], S['other'], S['chains'], S['seen'], S['user_fn']
        # ---- start() from the user's thread on the blocking pipelines -----------
        #      (p = ....sink(f); p.start(): the call travels upstream through every node).  Whatever a node sets
        #      going then belongs on the pipeline's loop - the shared background loop - not on the loop that
        #      happens to be current in the calling thread
        seen_chains = []
        for cid, ch in sorted(chains.items()):
            if ch['loop'] != 'bg' or any(ch is c for c in seen_chains):
                continue
            seen_chains.append(ch)
            before = (len(asyncio.all_tasks(lp)), len(lp._ready) + len(lp._scheduled),
                      len(other.asyncio_loop._ready) + len(other.asyncio_loop._scheduled))
            exc = None
            has_child = set(id(u) for nd in ch['nodes'] for u in nd.upstreams if u is not None)
            leaves = [nd for nd in ch['nodes'] if id(nd) not in has_child]
            try:
                for nd in leaves:
                    nd.start()
            except Exception as e:       # noqa
                exc = e
            after = (len(asyncio.all_tasks(lp)), len(lp._ready) + len(lp._scheduled),
                     len(other.asyncio_loop._ready) + len(other.asyncio_loop._scheduled))
            rec.rec('started_from_caller', cid, repr(exc)[:80] if exc else None, before == after)
            info['started_bg'] = info.get('started_bg', 0) + 1
            if exc is not None:
                V.append(Violation('C19', 'C19.split', len(rec.events) - 1,
                                   'blocking pipeline %s (shared background loop): start() called from the user\'s thread raised %r'
                                   % (cid, exc), node_op=type(ch['nodes'][0]).__name__))
                return
            if before != after:
                V.append(Violation('C19', 'C19.split', len(rec.events) - 1,
                                   'blocking pipeline %s is bound to the shared background loop, but start() called from the user\'s '
                                   'thread put work on the loop current in that thread (tasks/callbacks there: %r -> %r)'
                                   % (cid, before, after), node_op=[type(nd).__name__ for nd in ch['nodes']][-1]))
                return
        # ---- data flow on the asynchronous pipelines ------------------------
        for cid, ch in sorted(chains.items()):
            if ch['mode'] is not True or ch['loop'] != 'caller':
                continue
            root = ch['nodes'][0]
            before_threads = _Thread.count
            sched_other = len(other.asyncio_loop._ready) + len(other.asyncio_loop._scheduled)
            del seen_cb_loops[:]
            tail = ch['nodes'][-1]
            if not type(tail).__name__.startswith('sink'):
                keep.append(tail.sink(user_fn))
            if hasattr(root, 'start') and type(root).__name__ in SOURCE_CLASSES:
                root.start()
                await asyncio.sleep(5)
                root.stop()
            else:
                for v in range(3):
                    r = root.emit(v)
                    if r is not None:
                        try:
                            await asyncio.wait_for(asyncio.shield(asyncio.ensure_future(r)), 10)
                        except Exception:
                            pass
                await asyncio.sleep(5)
            info['flow'] += 1
            rec.rec('flow', cid, len(seen_cb_loops))
            if any(l is not lp for l in seen_cb_loops):
                V.append(Violation('C19', 'C19.async_off_loop', len(rec.events) - 1,
                                   'asynchronous pipeline %s: a user callback ran outside the caller\'s loop' % cid, node_op=type(root).__name__))
                return
            if _Thread.count != before_threads:
                V.append(Violation('C19', 'C19.thread_started', len(rec.events) - 1,
                                   'asynchronous pipeline %s started a background thread while data flowed' % cid, node_op=type(root).__name__))
                return
            if len(other.asyncio_loop._ready) + len(other.asyncio_loop._scheduled) != sched_other:
                V.append(Violation('C19', 'C19.async_off_loop', len(rec.events) - 1,
                                   'asynchronous pipeline %s scheduled work on another loop' % cid, node_op=type(root).__name__))
                return

    status = 'ok'
    try:
        if sc.get('outside'):
            asyncio.set_event_loop(lp)        # the thread's current loop, not running yet
            construct()
        lp.run_until_complete(main())
    except simloop.Deadlock:
        status = 'deadlock'
    except simloop.StepCap:
        status = 'step_cap'
    finally:
        simloop.dispose_loop(lp)
        from .pipeline import _reset_streamz
        _reset_streamz()
        streamz.core.threading = real_threading
        streamz.core._dask_default_client = real_dask_client
        import glob as _g
        streamz.sources.glob = _g.glob
    return rec, V, info, status


def _lname(loop, loops, bg):
    if loop is None:
        return 'no loop'
    if loop is loops['caller']:
        return "the caller's loop"
    if loop is loops['other']:
        return 'the other loop'
    if bg[0] is not None and loop is bg[0]:
        return 'the shared background loop'
    return 'a new background loop'


def evaluate(prop, sc, want_trace=False):
    rec, V, info, status = run_binding(sc)
    out = Outcome()
    out.status = status
    out.events = len(rec.events)
    out.sim_time = rec.events[-1][1] if rec.events else 0
    out.signature = rec.signature() + repr([(s['kind'], s.get('asynchronous'), s.get('loop'), s['chain']) for s in sc['steps']])
    import hashlib
    out.signature = hashlib.sha256(out.signature.encode()).hexdigest()[:16]
    out.violations = V[:1]
    if info['explicit']:
        out.probes['explicit_request'] = 1
    if info['loopy']:
        out.probes['loop_requiring_node'] = 1
    if info['flow']:
        out.probes['data_flowed_on_async_pipeline'] = 1
    if info['raised_ok']:
        out.probes['conflict_raised'] = 1
    if info['bg']:
        out.probes['background_loop_used'] = 1
    if info.get('started_bg'):
        out.probes['blocking_pipeline_started_from_the_callers_thread'] = 1
    if any(st['kind'] == 'join' for st in sc['steps']):
        out.probes['pipelines_joined'] = 1
    if sc.get('outside'):
        out.probes['constructed_outside_a_running_loop'] = 1
    if sc.get('dask_client'):
        out.probes['default_dask_client_present'] = 1
    out.nontrivial = bool(info['explicit'] or info['loopy'])
    if want_trace:
        import types
        out.res = types.SimpleNamespace(events=rec.events)
    return out


def generate(prop, rng, seed, index, tier):
    steps = []
    nchains = rng.choice([1, 1, 2, 3])
    for c in range(nchains):
        first = rng.choice(['stream', 'stream', 'stream'] + SOURCES)
        length = rng.randrange(1, 5)

        def kwargs(kind, first_of_chain):
            st = {}
            if kind in ACCEPTS_KW and rng.random() < (0.6 if first_of_chain else 0.35):
                r = rng.random()
                if r < 0.45:
                    st['asynchronous'] = rng.choice([True, True, False])
                elif r < 0.7:
                    st['loop'] = rng.choice(['caller', 'other'])
                else:
                    st['asynchronous'] = rng.choice([True, False])
                    st['loop'] = 'caller' if st['asynchronous'] else rng.choice(['caller', 'other'])
            return st
        st = {'chain': c, 'kind': first}
        st.update(kwargs(first, True))
        steps.append(st)
        kinds = [first]
        for _ in range(length):
            kind = rng.choice(PLAIN + LOOPY + ['map'])
            st = {'chain': c, 'kind': kind}
            # trees, not only chains: a new node may extend any earlier non-sink node of the pipeline
            parents = [i for i, k in enumerate(kinds) if k != 'sink']
            st['parent'] = parents[-1] if rng.random() < 0.6 else rng.choice(parents)
            st.update(kwargs(kind, False))
            steps.append(st)
            kinds.append(kind)
    joins = []
    if nchains >= 2 and rng.random() < 0.5:
        a, b2 = rng.sample(range(nchains), 2)
        joins.append({'chain': a, 'other': b2, 'kind': 'join', 'how': rng.choice(['union', 'union', 'zip'])})
    # interleave the chains' constructors
    order = []
    per = {}
    for st in steps:
        per.setdefault(st['chain'], []).append(st)
    while any(per.values()):
        c = rng.choice([k for k, v in per.items() if v])
        order.append(per[c].pop(0))
    for j in joins:
        # a join is placed after at least one constructor of either side; later constructors extend the merged pipeline
        pos_a = [i for i, st in enumerate(order) if st['chain'] == j['chain']]
        pos_b = [i for i, st in enumerate(order) if st['chain'] == j['other']]
        lo = max(pos_a[0], pos_b[0]) + 1
        at = rng.randrange(lo, len(order) + 1)
        # parents: a non-sink node of each side that exists at that point
        ka = [st['kind'] for st in order[:at] if st['chain'] == j['chain']]
        kb = [st['kind'] for st in order[:at] if st['chain'] == j['other']]
        pa = [i for i, k in enumerate(ka) if k != 'sink']
        pb = [i for i, k in enumerate(kb) if k != 'sink']
        if not pa or not pb:
            continue
        j['parent'] = rng.choice(pa)
        j['other_parent'] = rng.choice(pb)
        # nodes created later in either chain must only refer to parents of their own original chain: they do,
        # since 'parent' indexes the chain's own node list, which keeps its order at the front of the merged list
        # only for the joining chain; later steps of the other chain are dropped to keep indices meaningful
        order = order[:at] + [j] + [st for st in order[at:] if st['chain'] != j['other']]
        for st in order[at + 1:]:
            if st['chain'] == j['chain'] and 'parent' in st:
                st['parent'] = min(st['parent'], len(ka) - 1)
    return {'format': 1, 'family': 'binding', 'property': 'C19', 'seed': seed, 'index': index, 'steps': order,
            'outside': rng.random() < 0.3, 'dask_client': rng.random() < 0.2}


def shrink_candidates(sc):
    def clone():
        return copy.deepcopy(sc)
    steps = sc['steps']
    for i in range(len(steps) - 1, -1, -1):
        if steps[i]['kind'] == 'join':
            continue
        if any(s['kind'] == 'join' for s in steps):
            break          # (indices into merged pipelines: only the arguments are shrunk then)
        ch = steps[i]['chain']
        # only the last step of a chain, or a whole chain, can go
        later = [s for s in steps[i + 1:] if s['chain'] == ch]
        pos = len([s for s in steps[:i] if s['chain'] == ch])      # index of this node within its pipeline
        if not any(s.get('parent', -1) in (pos, -1) and True for s in later) or not later:
            c = clone()
            del c['steps'][i]
            for s2 in c['steps'][i:]:
                if s2['chain'] == ch and s2.get('parent', 0) > pos:
                    s2['parent'] -= 1
            if c['steps'] and pos > 0 or not later:
                if c['steps']:
                    yield c
    for ch in set(s['chain'] for s in steps):
        if any(s['kind'] == 'join' and ch in (s['chain'], s.get('other')) for s in steps):
            continue
        c = clone()
        c['steps'] = [s for s in steps if s['chain'] != ch]
        if c['steps']:
            yield c
    for i, s in enumerate(steps):
        for key in ('asynchronous', 'loop'):
            if key in s:
                c = clone()
                del c['steps'][i][key]
                yield c
