"""C15 - delivery follows the current topology under connect / disconnect /
destroy / dropped references + gc (synchronous pipelines, no loop)."""
import asyncio
import copy
import gc

from . import loop as simloop
from .trace import Recorder
from .build import Ctx, build_graph, mdids
from .oracles import Violation, Analysis
from .fam_pipeline import Outcome
from .models import make_model
from .fns import TOKEN_BASE

LEVEL = {'C15': 'exploration'}
CHUNK = {'C15': 60}
COMPONENTS = {
    'real': ['streamz.core Stream.connect / disconnect / destroy / _add_upstream / _remove_upstream (zip, combine_latest overrides)',
             'OrderedWeakrefSet downstream links, sinks._global_sinks', 'CPython reference counting + gc.collect()'],
    'stub': ['user functions (pure catalogue)', 'no event loop: emit runs on the caller stack'],
}
ASSUMPTIONS = {'C15': ['pipelines without parallel edges and without cycles; slice (self-detaching) and loop-requiring nodes are not edit targets',
                       'a dropped reference is followed by gc.collect() (the instrumentation wrappers form reference cycles)',
                       'an explicit emit_on of combine_latest names one input (stream, index or one-element list)']}
RULE = {'C15': 'histories of emit / connect / disconnect / destroy / drop-reference+gc / add-sink operations over synchronous '
               'pipelines (map, filter, accumulate, union, zip, combine_latest, sliding_window, unique, sinks). Non-trivial = at '
               'least one topology edit followed by an emission; distinct = distinct schedule signatures'}


class InvalidScenario(Exception):
    pass


def _alive(model_nodes, refs, sinks_live):
    """ancestors-closure of what the program references and the registered sinks"""
    alive = set()
    todo = [n for n in refs] + [n for n in sinks_live]
    while todo:
        n = todo.pop()
        if n in alive or n not in model_nodes:
            continue
        alive.add(n)
        todo.extend(model_nodes[n]['ups'])
        # (a combine_latest built with an explicit emit_on keeps referring to those streams - also after they
        # stopped being its inputs; a later re-connect makes them triggers again)
        sp = model_nodes[n].get('spec') or {}
        if sp.get('op') == 'combine_latest' and sp.get('emit_on') is not None:
            todo.extend(sp['up'][i] for i in sp['emit_on'])
    return alive


def run_topology(sc):
    simloop.install_seams()
    import streamz.sinks
    idle = simloop.new_loop()
    asyncio.set_event_loop(idle)
    simloop._current[0] = None
    rec = Recorder(None)
    g = {'graph': sc['graph'], 'producers': [], 'faults': {}}
    ctx = Ctx(g, rec, None, 'loopless')
    N = build_graph(ctx, {})
    # model state
    M = {}
    for n in sc['graph']:
        M[n['id']] = {'op': n['op'], 'ups': list(n.get('up', [])), 'spec': dict(n)}
    children = {n['id']: [] for n in sc['graph']}
    for n in sc['graph']:
        for u in n.get('up', []):
            children[u].append(n['id'])
    refs = set(M)                      # node ids the program still references
    sinks_live = set(n['id'] for n in sc['graph'] if n['op'] == 'sink')
    snapshots = []                     # (event index, children map, alive set, edits since previous)
    online = []
    next_id = [max(M) + 1]
    local = dict(N)                    # the program's variables
    ctx.keep[:] = []                   # the harness must not keep nodes alive
    ctx.nodes = {}                     # (wrappers still find ids through ctx.ids)

    def real_children(u):
        return [ctx.ids.get(id(d), '?') for d in list(local_or_any(u).downstreams)]

    def local_or_any(nid):
        return anynode[nid]()

    import weakref
    anynode = {nid: weakref.ref(s) for nid, s in N.items()}
    del N

    def check_links(at, what):
        alive = _alive(M, refs, sinks_live)
        for nid in sorted(M):
            s = anynode[nid]()
            if nid not in alive:
                if s is not None and what.startswith('drop'):
                    # still alive although nothing references it: tolerated only if unreachable from data
                    pass
                continue
            if s is None:
                online.append(Violation('C15', 'C15.gc', at, 'after %s: node %d (%s) was garbage collected although it is still referenced (program / sink / live descendant)'
                                        % (what, nid, M[nid]['op']), node_op=M[nid]['op']))
                return
            exp_down = [c for c in children[nid] if c in alive]
            got_down = [ctx.ids.get(id(d), '?') for d in list(s.downstreams)]
            if got_down != exp_down:
                extra = [c for c in got_down if c not in exp_down]
                if extra and all(c in M and c not in alive for c in extra) and [c for c in got_down if c not in extra] == exp_down:
                    online.append(Violation('C15', 'C15.gc', at,
                                            'after %s: node %d (%s) still feeds %r, which nothing references any more'
                                            % (what, nid, M[nid]['op'], extra), node_op=M[nid]['op'], after=what.split()[0]))
                else:
                    online.append(Violation('C15', 'C15.links', at,
                                            'after %s: node %d (%s) has downstreams %r, the edges that exist are %r'
                                            % (what, nid, M[nid]['op'], got_down, exp_down), node_op=M[nid]['op'], after=what.split()[0]))
                return
            got_up = [ctx.ids.get(id(u), '?') for u in s.upstreams]
            if got_up != M[nid]['ups']:
                online.append(Violation('C15', 'C15.links', at,
                                        'after %s: node %d (%s) lists upstreams %r, the edges that exist are %r'
                                        % (what, nid, M[nid]['op'], got_up, M[nid]['ups']), node_op=M[nid]['op'], after=what.split()[0]))
                return

    def snap(edits):
        alive = _alive(M, refs, sinks_live)
        snapshots.append((len(rec.events), {k: list(v) for k, v in children.items()}, alive, edits,
                          {k: list(v['ups']) for k, v in M.items()}))

    snap([])
    for op in sc['ops']:
        k = op['op']
        at = len(rec.events)
        edits = []
        what = k
        try:
            if k == 'emit':
                src = local.get(op['node']) or anynode[op['node']]()
                ctx.entry_pending.setdefault(op['node'], []).append(('e', op['v']))
                rec.rec('emit_call', 0, op['v'], op['node'], op['v'], ())
                try:
                    src.emit(op['v'])
                    rec.rec('emit_done', 0, op['v'], 'ok')
                except Exception as e:     # noqa
                    rec.rec('emit_done', 0, op['v'], 'exc', (type(e).__name__, str(e)[:80]))
                    online.append(Violation('C15', 'C15.delivery', len(rec.events) - 1,
                                            'emit(%r) at node %d raised %s: %s' % (op['v'], op['node'], type(e).__name__, str(e)[:80]),
                                            node_op=M[op['node']]['op']))
                continue
            u, v = op.get('u'), op.get('v')
            # a scenario (e.g. one produced by shrinking) must be a valid history
            if k == 'connect' and (u not in M or v not in M or u in M[v]['ups'] or anynode[u]() is None or anynode[v]() is None):
                raise InvalidScenario(what)
            if k == 'disconnect' and (u not in M or v not in M or u not in M[v]['ups'] or anynode[u]() is None or anynode[v]() is None):
                raise InvalidScenario(what)
            if k == 'destroy' and (v not in M or anynode[v]() is None):
                raise InvalidScenario(what)
            if k == 'drop' and v not in M:
                raise InvalidScenario(what)
            if k == 'add_sink' and (u not in M or op['id'] in M or anynode[u]() is None):
                raise InvalidScenario(what)
            if k == 'connect':
                what = 'connect %d->%d' % (u, v)
                edits.append(('add', u, v))
                children[u].append(v)
                M[v]['ups'].append(u)
                anynode[u]().connect(anynode[v]())
            elif k == 'disconnect':
                what = 'disconnect %d->%d' % (u, v)
                edits.append(('remove', u, v))
                children[u].remove(v)
                M[v]['ups'].remove(u)
                anynode[u]().disconnect(anynode[v]())
            elif k == 'destroy' and 'streams' in op:
                # destroy(streams=[...]): exactly the listed inputs are detached - none for an empty list
                what = 'destroy %d streams=%r' % (v, op['streams'])
                if any(uu not in M[v]['ups'] or anynode[uu]() is None for uu in op['streams']):
                    raise InvalidScenario(what)
                for uu in op['streams']:
                    edits.append(('remove', uu, v))
                    children[uu].remove(v)
                    M[v]['ups'].remove(uu)
                anynode[v]().destroy(streams=[anynode[uu]() for uu in op['streams']])
            elif k == 'destroy':
                what = 'destroy %d' % v
                for uu in list(M[v]['ups']):
                    edits.append(('remove', uu, v))
                    children[uu].remove(v)
                M[v]['ups'] = []
                sinks_live.discard(v)
                anynode[v]().destroy()
            elif k == 'drop':
                what = 'drop %d' % v
                refs.discard(v)
                local.pop(v, None)
                gc.collect()
            elif k == 'add_sink':
                what = 'add_sink on %d' % u
                nid = op['id']
                spec = {'id': nid, 'op': 'sink', 'up': [u], 'kind': 'sync'}
                ctx.spec[nid] = spec
                f = ctx.sync_fn(nid, lambda x: None, kind='sink')
                if op.get('detached'):
                    # the consumer is built on its own and attached afterwards: a sink like any other from then on
                    s = streamz.sinks.sink(None, f)
                    anynode[u]().connect(s)
                else:
                    s = anynode[u]().sink(f)
                ctx.instrument(nid, s)
                ctx.keep[:] = []
                ctx.nodes = {}
                anynode[nid] = weakref.ref(s)
                del s
                M[nid] = {'op': 'sink', 'ups': [u], 'spec': spec}
                children[nid] = []
                children[u].append(nid)
                sinks_live.add(nid)
                edits.append(('new', u, nid))
        except InvalidScenario:
            simloop.dispose_loop(idle)
            from .pipeline import _reset_streamz
            _reset_streamz()
            raise
        except Exception as e:     # noqa
            rec.rec('op_exc', what, type(e).__name__, str(e)[:80])
            online.append(Violation('C15', 'C15.links', len(rec.events) - 1,
                                    '%s raised %s: %s' % (what, type(e).__name__, str(e)[:100]),
                                    node_op=M[v]['op'] if v in M else None, after=k, raised=type(e).__name__))
        rec.rec('op', what)
        gc.collect()      # the instrumentation wrappers form cycles: collect what became unreachable
        if not online:
            check_links(len(rec.events) - 1, what)
        snap(edits)
        if online:
            break
    # local / anynode die here
    res_events = rec.events
    local.clear()
    simloop.dispose_loop(idle)
    from .pipeline import _reset_streamz
    _reset_streamz()
    gc.collect()
    return rec, ctx, snapshots, online, M


def judge(sc, rec, ctx, snapshots, online, M):
    if online:
        return online[:1]
    V = []
    import types
    res = types.SimpleNamespace(events=rec.events, ctx=ctx, status='ok', pending_aw=set())
    specs = [dict(m['spec']) for _, m in sorted(M.items())]
    g = {'graph': specs, 'producers': [], 'faults': {}}
    an = Analysis(g, res)
    # delivery: every emission goes to exactly the current children, in attach order
    si = 0
    outs = sorted((o for L in an.outs.values() for o in L), key=lambda o: o.seq)
    for o in outs:
        while si + 1 < len(snapshots) and snapshots[si + 1][0] <= o.seq:
            si += 1
        _, ch, alive, _, _ = snapshots[si]
        exp = [c for c in ch.get(o.node, []) if c in alive]
        got = [i.node for i in o.kids]
        if got != exp:
            V.append(Violation('C15', 'C15.delivery', o.seq,
                               'node %d (%s) emitted %r: delivered to %r, the edges that exist now lead to %r'
                               % (o.node, M[o.node]['op'], o.value, got, exp), node_op=M[o.node]['op']))
            return V
        for i in o.kids:
            if i.value != o.value:
                V.append(Violation('C15', 'C15.delivery', i.seq, 'node %d received %r, its upstream emitted %r' % (i.node, i.value, o.value), node_op=M[i.node]['op']))
                return V
    for i in an.orphans:
        V.append(Violation('C15', 'C15.delivery', i.seq,
                           'node %d (%s) received %r from %s along an edge that does not exist' % (i.node, M[i.node]['op'], i.value, i.parent),
                           node_op=M[i.node]['op']))
        return V
    # combiners behave like a node over their current inputs
    for nid, m in sorted(M.items()):
        if m['op'] not in ('zip', 'combine_latest'):
            continue
        spec0 = dict(m['spec'])
        spec0['up'] = list(snapshots[0][4][nid]) if nid in snapshots[0][4] else list(spec0.get('up', []))
        model = make_model(spec0)
        items = sorted([(i.seq, 0, i) for i in an.ins[nid]] + [(s[0], 1, s) for s in snapshots[1:]], key=lambda p: (p[0], p[1]))
        for _, kind, it in items:
            if kind == 1:
                for e in it[3]:
                    if e[2] != nid:
                        continue
                    if e[0] == 'add':
                        model.ups.append(e[1])
                        if m['op'] == 'zip':
                            from collections import deque
                            model.buf[e[1]] = deque()
                        elif m['spec'].get('emit_on') is None:
                            model.emit_on = model.ups      # (an explicit emit_on stays what it was)
                    elif e[0] == 'remove':
                        model.ups.remove(e[1])
                        if m['op'] == 'zip':
                            model.buf.pop(e[1], None)
                        else:
                            model.last.pop(e[1], None)
                            if m['spec'].get('emit_on') is None:
                                model.emit_on = model.ups
                continue
            i = it
            if i.parent not in model.ups:
                continue
            exp = model.push(i.parent, i.value, i.md)
            got = [(o.value, tuple(o.md)) for o in i.outs]
            expv = [(x[0], tuple(x[1])) for x in exp]
            if got != expv:
                if expv and not got:
                    V.append(Violation('C15', 'C15.combiner_progress', i.ret or i.seq,
                                       '%s %d over its current inputs %r holds data from all of them after %r arrived from %d, so it must emit %r - it emitted nothing'
                                       % (m['op'], nid, model.ups, i.value, i.parent, expv[0][0]), node_op=m['op']))
                else:
                    V.append(Violation('C15', 'C15.combiner_safety', i.ret or i.seq,
                                       '%s %d over its current inputs %r emitted %r on arrival of %r from %d; a node built over those inputs that received what they delivered emits %r'
                                       % (m['op'], nid, model.ups, [x[0] for x in got], i.value, i.parent, [x[0] for x in expv]), node_op=m['op']))
                return V
    return V


def evaluate(prop, sc, want_trace=False):
    if sc.get('variant') == 'async':
        from . import fam_topology_async
        return fam_topology_async.evaluate(prop, sc, want_trace)
    rec, ctx, snapshots, online, M = run_topology(sc)
    out = Outcome()
    out.events = len(rec.events)
    out.signature = rec.signature()
    out.violations = judge(sc, rec, ctx, snapshots, online, M)
    ops = [o['op'] for o in sc['ops']]
    edited = False
    for k in ops:
        if k in ('connect', 'disconnect', 'destroy', 'drop', 'add_sink'):
            edited = True
        elif k == 'emit' and edited:
            out.probes['emit_after_edit'] = 1
    for o in sc['ops']:
        if o['op'] in ('connect', 'disconnect') and M.get(o['v'], {}).get('op') in ('zip', 'combine_latest'):
            out.probes['edit_of_combiner'] = 1
        if o['op'] == 'destroy' and M.get(o['v'], {}).get('op') not in ('sink',):
            out.probes['destroy_middle_node'] = 1
        if o['op'] == 'drop':
            out.probes['reference_dropped'] = 1
        if o['op'] == 'destroy' and 'streams' in o:
            out.probes['destroy_with_explicit_list'] = 1
            if not o['streams']:
                out.probes['destroy_with_empty_list'] = 1
    for o in sc['ops']:
        if o['op'] != 'emit':
            out.faults[o['op']] = out.faults.get(o['op'], 0) + 1
    out.nontrivial = 'emit_after_edit' in out.probes
    if want_trace:
        import types
        out.res = types.SimpleNamespace(events=rec.events)
    return out


# ---------------------------------------------------------------------------

EDITABLE = ['map', 'filter', 'accumulate', 'union', 'zip', 'combine_latest', 'sliding_window', 'unique']


def generate(prop, rng, seed, index, tier):
    if rng.random() < 0.25:
        # edits of pipelines holding a node with asynchronous internal state (virtual-time loop)
        from . import fam_topology_async
        return fam_topology_async.generate(rng, seed, index, tier)
    big = tier == 'thorough'
    graph = []

    def add(n):
        n['id'] = len(graph)
        graph.append(n)
        return n['id']
    nsrc = rng.choice([2, 2, 3])
    for _ in range(nsrc):
        add({'op': 'source'})
    for _ in range(rng.randrange(2, 8 if big else 6)):
        op = rng.choice(EDITABLE + ['zip', 'combine_latest'])
        cands = [n['id'] for n in graph]
        if op in ('union', 'zip', 'combine_latest'):
            if len(cands) < 2:
                continue
            ups = rng.sample(cands, rng.choice([2, 2, 3]) if len(cands) >= 3 else 2)
            n = {'op': op, 'up': ups}
            if op == 'zip' and rng.random() < 0.3:
                n['maxsize'] = 100
            if op == 'combine_latest' and rng.random() < 0.35:
                # an explicit emit_on (given as a stream, as an index - 0 included - or as a list) survives graph edits
                n['emit_on'] = [rng.randrange(len(ups))]
                n['emit_on_index'] = rng.random() < 0.6
                n['emit_on_scalar'] = rng.random() < 0.6
            add(n)
        elif op == 'map':
            add({'op': 'map', 'up': [rng.choice(cands)], 'fn': ['tag', rng.randrange(1, 9)]})
        elif op == 'filter':
            m = rng.choice([2, 3])
            add({'op': 'filter', 'up': [rng.choice(cands)], 'fn': ['wmod', m, rng.randrange(m)]})
        elif op == 'accumulate':
            add({'op': 'accumulate', 'up': [rng.choice(cands)], 'fn': ['fold', 1], 'start': [0, 0]})
        elif op == 'sliding_window':
            add({'op': 'sliding_window', 'up': [rng.choice(cands)], 'n': rng.choice([1, 2, 3]), 'partial': rng.random() < 0.5})
        elif op == 'unique':
            add({'op': 'unique', 'up': [rng.choice(cands)], 'key': ['wmod', 3]})
    for n in list(graph):
        if n['op'] == 'zip':
            n.setdefault('maxsize', 100)
    has_child = set(u for n in graph for u in n.get('up', []))
    for n in list(graph):
        if n['op'] != 'source' and (n['id'] not in has_child or rng.random() < 0.2):
            add({'op': 'sink', 'up': [n['id']], 'kind': 'sync'})
    # model for generating valid operations
    ups = {n['id']: list(n.get('up', [])) for n in graph}
    kids = {n['id']: [] for n in graph}
    for n in graph:
        for u in n.get('up', []):
            kids[u].append(n['id'])
    opname = {n['id']: n['op'] for n in graph}
    destroyed = set()
    dropped = set()
    next_id = len(graph)
    ops = []
    tok = [TOKEN_BASE]
    sources = [n['id'] for n in graph if n['op'] == 'source']

    def reaches(a, b):       # is b reachable from a
        todo, seen = [a], set()
        while todo:
            x = todo.pop()
            if x == b:
                return True
            if x in seen:
                continue
            seen.add(x)
            todo.extend(kids[x])
        return False

    none_values = rng.random() < 0.3

    def emit_some(k):
        for _ in range(k):
            s = rng.choice(sources)
            # (now and then the element is None: a value like any other, not "nothing delivered yet")
            ops.append({'op': 'emit', 'node': s, 'v': None if none_values and rng.random() < 0.2 else tok[0]})
            tok[0] += 1
    emit_some(rng.randrange(0, 5))
    for _ in range(rng.randrange(1, 7 if big else 5)):
        kind = rng.choice(['connect', 'disconnect', 'disconnect', 'destroy', 'drop', 'add_sink', 'connect'])
        live = [i for i in opname if i not in dropped]
        if kind == 'connect':
            # (sinks too: a consumer moved from one stream to another stays registered until it is destroyed)
            targets = [i for i in live if opname[i] in ('union', 'zip', 'combine_latest', 'map', 'filter', 'sink') and i not in destroyed]
            if not targets:
                continue
            v = rng.choice(targets)
            cands = [u for u in live if u != v and opname[u] != 'sink' and u not in ups[v] and not reaches(v, u)]
            if not cands:
                continue
            u = rng.choice(cands)
            ops.append({'op': 'connect', 'u': u, 'v': v})
            ups[v].append(u)
            kids[u].append(v)
        elif kind == 'disconnect':
            edges = [(u, v) for v in live for u in ups[v] if u not in dropped]
            if not edges:
                continue
            u, v = rng.choice(edges)
            if opname[v] in ('zip', 'combine_latest') and len(ups[v]) <= 1:
                continue
            ops.append({'op': 'disconnect', 'u': u, 'v': v})
            ups[v].remove(u)
            kids[u].remove(v)
        elif kind == 'destroy':
            cands = [i for i in live if ups[i] and i not in destroyed and opname[i] != 'source']
            if not cands:
                continue
            v = rng.choice(cands)
            if opname[v] != 'sink' and rng.random() < 0.4:
                # the explicit-list form: any subset of the current inputs, the empty one included
                sub = [u for u in ups[v] if rng.random() < 0.5]
                ops.append({'op': 'destroy', 'v': v, 'streams': list(sub)})
                for u in sub:
                    kids[u].remove(v)
                    ups[v].remove(u)
                continue
            ops.append({'op': 'destroy', 'v': v})
            for u in ups[v]:
                kids[u].remove(v)
            ups[v] = []
            destroyed.add(v)
        elif kind == 'drop':
            cands = [i for i in live if opname[i] not in ('source',)]
            if not cands:
                continue
            v = rng.choice(cands)
            ops.append({'op': 'drop', 'v': v})
            dropped.add(v)
        elif kind == 'add_sink':
            cands = [i for i in live if opname[i] != 'sink']
            u = rng.choice(cands)
            ops.append({'op': 'add_sink', 'u': u, 'id': next_id})
            if rng.random() < 0.4:
                ops[-1]['detached'] = True
            opname[next_id] = 'sink'
            ups[next_id] = [u]
            kids[next_id] = []
            kids[u].append(next_id)
            next_id += 1
        emit_some(rng.randrange(0, 6))
    emit_some(rng.randrange(1, 5))
    return {'format': 1, 'family': 'topology', 'property': 'C15', 'seed': seed, 'index': index,
            'graph': graph, 'ops': ops}


def shrink_candidates(sc):
    if sc.get('variant') == 'async':
        from . import fam_topology_async
        yield from fam_topology_async.shrink_candidates(sc)
        return

    def clone():
        return copy.deepcopy(sc)
    ops = sc['ops']
    for i in range(len(ops) - 1, -1, -1):
        if ops[i]['op'] == 'emit':
            c = clone()
            del c['ops'][i]
            yield c
    for i in range(len(ops) - 1, -1, -1):
        if ops[i]['op'] in ('drop', 'add_sink'):
            c = clone()
            o = c['ops'].pop(i)
            if o['op'] == 'add_sink':
                if any(x.get('v') == o['id'] or x.get('u') == o['id'] for x in c['ops']):
                    continue
            yield c
    # edits are only removed when nothing later depends on them (validity is re-checked by execution)
    for i in range(len(ops) - 1, -1, -1):
        if ops[i]['op'] in ('connect', 'disconnect', 'destroy'):
            c = clone()
            del c['ops'][i]
            yield c
    used = set(u for n in sc['graph'] for u in n.get('up', []))
    refd = set()
    for o in ops:
        for key in ('node', 'u', 'v'):
            if key in o and o['op'] != 'emit' or key == 'node':
                if key in o:
                    refd.add(o[key])
    for i in range(len(sc['graph']) - 1, -1, -1):
        n = sc['graph'][i]
        if n['id'] in used or n['id'] in refd:
            continue
        c = clone()
        del c['graph'][i]
        yield c
