"""Virtual-time event loop and the seams that put streamz under it.

SimLoop is a real ``asyncio.SelectorEventLoop`` (all of asyncio's scheduling
logic - ``_run_once``, ``call_soon``, ``call_at``, ``Task``, ``Future`` - is the
genuine code) whose selector never touches the OS: ``select(timeout)`` advances
the loop's virtual clock by ``timeout`` and reports no I/O.  So "nothing is
runnable" jumps the clock to the next timer, and a 60 s timeout costs
microseconds.

Nothing in here draws random numbers or reads a real clock.
"""
import asyncio
import heapq
import selectors
import sys

EPOCH = 1_000_000.0   # wall clock = EPOCH + virtual loop time (both dyadic)


class Deadlock(Exception):
    """select(None): nothing ready, no timer - the loop would block forever."""


class Livelock(Exception):
    """the ready queue spins without any timer left to wait for."""


class StepCap(Exception):
    pass


class _FakeSelector(selectors.BaseSelector):
    def __init__(self, loop):
        self._loop = loop
        self._map = {}

    def register(self, fileobj, events, data=None):
        key = selectors.SelectorKey(fileobj, 0, events, data)
        self._map[fileobj] = key
        return key

    def unregister(self, fileobj):
        return self._map.pop(fileobj)

    def modify(self, fileobj, events, data=None):
        return self.register(fileobj, events, data)

    def select(self, timeout=None):
        loop = self._loop
        if timeout is None:
            if loop._foreign_wakeup():
                return []
            raise Deadlock()
        if timeout > 0:
            # jump exactly onto the next timer (no float drift)
            if loop._scheduled:
                loop._vt = max(loop._vt, loop._scheduled[0]._when)
            else:
                loop._vt += timeout
            loop.jumps += 1
        return []

    def close(self):
        self._map.clear()

    def get_map(self):
        return self._map


class SimTimerHandle(asyncio.TimerHandle):
    """TimerHandle with a total, scenario-decided order among equal deadlines."""
    __slots__ = ('_tie',)

    def _k(self):
        return (self._when, self._tie)

    def __lt__(self, other):
        return self._k() < other._k()

    def __le__(self, other):
        return self._k() <= other._k()

    def __gt__(self, other):
        return self._k() > other._k()

    def __ge__(self, other):
        return self._k() >= other._k()

    def __eq__(self, other):
        return self is other

    __hash__ = asyncio.TimerHandle.__hash__


class SimLoop(asyncio.SelectorEventLoop):
    """Deterministic discrete-event asyncio loop."""

    SPIN_WINDOW = 8

    def __init__(self):
        self._vt = 0.0
        self.jumps = 0
        self.spin_jumps = 0
        self.iterations = 0
        self.step_cap = 2_000_000
        self.tiebreak = 'fifo'
        self._tie_seq = 0
        self._tie_rng = None
        self.activity = 0          # bumped by the trace recorder at every event
        self._spin_sig = None
        self._spin_count = 0
        self._spin_activity = 0
        self.on_idle = None        # hook used by the threaded-mode scheduler
        self.cap_hit = False
        self.tasks = []
        super().__init__(selector=_FakeSelector(self))
        self._clock_resolution = 1e-9

    # --- no OS resources -------------------------------------------------
    def _make_self_pipe(self):
        self._ssock = self._csock = None

    def _close_self_pipe(self):
        pass

    def _write_to_self(self):
        pass

    def _foreign_wakeup(self):
        if self.on_idle is not None:
            return self.on_idle()
        return False

    # --- clock ----------------------------------------------------------
    def time(self):
        return self._vt

    def advance(self, dur):
        """A stall: the thread running the loop is busy for ``dur`` seconds."""
        self._vt += dur

    # --- deterministic order of same-instant timers ---------------------
    def call_at(self, when, callback, *args, context=None):
        if when is None:
            raise TypeError("when cannot be None")
        self._check_closed()
        timer = SimTimerHandle(when, callback, args, self, context)
        self._tie_seq += 1
        if self.tiebreak == 'fifo':
            timer._tie = self._tie_seq
        elif self.tiebreak == 'lifo':
            timer._tie = -self._tie_seq
        else:
            timer._tie = self._tie_rng.random()
        heapq.heappush(self._scheduled, timer)
        timer._scheduled = True
        return timer

    def create_task(self, coro, **kw):
        t = super().create_task(coro, **kw)
        self.tasks.append(t)
        return t

    def dead_tasks(self):
        """tasks that ended with an exception nobody retrieved, in creation order"""
        out = []
        for t in self.tasks:
            if t.done() and not t.cancelled() and getattr(t, '_log_traceback', False):
                try:
                    exc = t.exception()
                except BaseException:
                    continue
                finally:
                    try:
                        t._log_traceback = True
                    except Exception:
                        pass
                if exc is not None:
                    co = t.get_coro()
                    out.append((getattr(co, '__qualname__', '?'), exc))
        return out

    # --- stepping -------------------------------------------------------
    def _run_once(self):
        self.iterations += 1
        if self.iterations > self.step_cap or self.cap_hit:
            raise StepCap()
        self._spin_check()
        super()._run_once()

    def _spin_check(self):
        """Exact busy-wait detection (map_async._wait_for_work_slot spins on
        sleep(0)): if the ready queue holds the same owners for SPIN_WINDOW
        consecutive iterations, no timer fired or was added, and the harness
        recorded no event, the loop is repeating itself until the next timer;
        let the time pass that such spinning takes in reality."""
        if not self._ready:
            self._spin_sig = None
            self._spin_count = 0
            return
        owners = []
        for h in self._ready:
            cb = h._callback
            owners.append(id(getattr(cb, '__self__', cb)))
        sig = (tuple(owners), len(self._scheduled),
               id(self._scheduled[0]) if self._scheduled else 0)
        if sig == self._spin_sig and self.activity == self._spin_activity:
            self._spin_count += 1
            if self._spin_count >= self.SPIN_WINDOW:
                live = [h for h in self._scheduled if not h._cancelled]
                if not live:
                    if self._foreign_wakeup():
                        self._spin_count = 0
                        return
                    raise Livelock()
                nxt = min(h._when for h in live)
                if nxt > self._vt:
                    self._vt = nxt
                    self.spin_jumps += 1
                self._spin_count = 0
        else:
            self._spin_sig = sig
            self._spin_activity = self.activity
            self._spin_count = 0


_current = [None]     # the SimLoop whose clock is "the" wall clock right now


def current():
    return _current[0]


def wall_time():
    lp = _current[0]
    return EPOCH + (lp._vt if lp is not None else 0.0)


class _Clock:
    """Stands in for ``time`` wherever streamz reads the wall clock: works both as
    the function (``from time import time``) and as the module (``import time``)."""
    def __call__(self):
        return wall_time()

    def time(self):
        return wall_time()

    def monotonic(self):
        return wall_time()

    def perf_counter(self):
        return wall_time()

    def sleep(self, d):
        lp = _current[0]
        if lp is not None and d > 0:
            lp.advance(d)          # a blocking sleep on the loop thread is a stall

    def __getattr__(self, name):
        import time as _t
        return getattr(_t, name)


CLOCK = _Clock()


class _SimPolicy(asyncio.DefaultEventLoopPolicy):
    """Every loop anybody creates is a SimLoop (tornado's
    ``IOLoop(make_current=False)`` -> ``asyncio.new_event_loop()``)."""

    created = []

    def new_event_loop(self):
        lp = SimLoop()
        cur = _current[0]
        if cur is not None:
            # loops created while a scenario runs share its clock origin
            lp._vt = cur._vt
            lp.tiebreak = cur.tiebreak
            lp._tie_rng = cur._tie_rng
        self.created.append(lp)
        return lp


_installed = [False]
bg_exception_hook = [None]


def install_seams():
    """Patch the module-level seams (idempotent, process-wide)."""
    if _installed[0]:
        return
    _installed[0] = True
    import warnings
    warnings.simplefilter('ignore')
    import streamz.core      # noqa  (imports distributed, which configures logging)
    import streamz.sources   # noqa
    import logging

    class _Capture(logging.Handler):
        """Exceptions swallowed by the loop (a node's forwarding coroutine
        died, a callback raised) become trace events instead of log lines."""
        def emit(self, record):
            hook = bg_exception_hook[0]
            if hook is not None:
                try:
                    hook(record)
                except Exception:
                    pass

    for name in ('streamz', 'streamz.core', 'streamz.sources', 'distributed', 'dask'):
        lg = logging.getLogger(name)
        lg.handlers[:] = []
        lg.propagate = False
        lg.setLevel(logging.CRITICAL + 1)
    for name in ('asyncio', 'tornado', 'tornado.application', 'tornado.general'):
        lg = logging.getLogger(name)
        lg.handlers[:] = [_Capture()]
        lg.propagate = False
        lg.setLevel(logging.ERROR)

    # the instrumentation wrappers double the frames of a depth-first push through a feedback cycle
    sys.setrecursionlimit(max(sys.getrecursionlimit(), 20000))
    # generators finalised after their loop was disposed complain on stderr: not our business
    sys.unraisablehook = lambda unraisable: None

    asyncio.set_event_loop_policy(_SimPolicy())

    # tornado's IOLoop.time() is time.time(): use the loop's own clock
    import tornado.platform.asyncio as tpa
    tpa.BaseAsyncIOLoop.time = lambda self: self.asyncio_loop.time()

    streamz.core.time = CLOCK
    # also for code that reaches the wall clock as time.time() (whatever the import style)
    import time as _time_module
    _time_module.time = CLOCK.time


class LoopThreadBlocked(RuntimeError):
    pass


class _NoBlockEvent:
    """threading.Event for streamz.core.sync() while the caller IS the loop thread: waiting
    for an event that only the loop itself can set would hang the real process; report it."""
    def __init__(self):
        self._flag = False

    def is_set(self):
        return self._flag

    def set(self):
        self._flag = True

    def clear(self):
        self._flag = False

    def wait(self, timeout=None):
        if not self._flag:
            raise LoopThreadBlocked('blocking wait on the event-loop thread (sync() called where the pipeline runs on the caller\'s loop)')
        return True


class guard_blocking:
    """with guard_blocking(): streamz.core.sync() cannot block the simulated loop thread"""
    def __enter__(self):
        import threading
        import types
        import streamz.core
        self.saved = streamz.core.threading
        streamz.core.threading = types.SimpleNamespace(Event=_NoBlockEvent, Thread=threading.Thread, local=threading.local,
                                                       get_ident=threading.get_ident)
        return self

    def __exit__(self, *a):
        import streamz.core
        streamz.core.threading = self.saved
        return False


def new_loop(tiebreak='fifo', tiebreak_seed=0):
    import random
    lp = SimLoop()
    lp.tiebreak = tiebreak
    lp._tie_rng = random.Random(tiebreak_seed)
    _current[0] = lp
    return lp


def dispose_loop(lp):
    """Cancel everything, close the loop and forget it everywhere, so the next
    scenario in this process starts from the same state as the first."""
    from tornado.ioloop import IOLoop
    try:
        for t in asyncio.all_tasks(lp):
            t.cancel()
    except Exception:
        pass
    lp._ready.clear()
    for h in lp._scheduled:
        h._cancelled = True
    lp._scheduled.clear()
    try:
        tl = IOLoop._ioloop_for_asyncio.pop(lp, None)
    except Exception:
        tl = None
    try:
        if tl is not None and hasattr(tl, 'selector_loop'):
            pass
    except Exception:
        pass
    try:
        asyncio.events._set_running_loop(None)
    except Exception:
        pass
    try:
        if not lp.is_closed():
            lp._closed = True
            lp._selector.close()
            ex = lp._default_executor
            if ex is not None:
                lp._default_executor = None
                ex.shutdown(wait=False)
    except Exception:
        pass
    if _current[0] is lp:
        _current[0] = None
    for extra in list(_SimPolicy.created):
        if extra is not lp and not extra.is_closed():
            try:
                IOLoop._ioloop_for_asyncio.pop(extra, None)
            except Exception:
                pass
            extra._ready.clear()
            extra._scheduled.clear()
            extra._closed = True
    _SimPolicy.created.clear()
    try:
        asyncio.set_event_loop(None)
    except Exception:
        pass
