"""Reference models of the node catalogue.

Written from the docstrings / docs / the expectations encoded in the unedited
test-suite (list-level meaning of every node, its metadata rule, and which
elements it legitimately *holds* after a given input prefix).  A model is fed
the arrivals a node actually saw (``push(parent, value, md)``) and answers what
the node must emit in response, value and metadata.  Values are frozen
(lists -> ('L', ...)) exactly like the recorder freezes them.
"""
from collections import deque

from . import fns
from .fns import freeze
from .build import freeze_in


def thaw(x):
    if isinstance(x, tuple):
        if x and x[0] == 'L':
            return [thaw(i) for i in x[1:]]
        return tuple(thaw(i) for i in x)
    return x


class Model:
    sync = True         # outputs occur inside the update that caused them

    def __init__(self, spec):
        self.spec = spec

    def push(self, parent, x, md):
        """-> list of (value, md) the node must emit, in order"""
        raise NotImplementedError

    def holders(self):
        """-> list of metadata ids (elem, j) the node is entitled to hold now"""
        return []

    def fail(self):
        """the user function raised on the element just pushed: undo it"""


class MSource(Model):
    def push(self, parent, x, md):
        return [(x, md)]


class MMap(Model):
    def push(self, parent, x, md):
        n = self.spec
        return [(freeze(fns.mapf(tuple(n['fn']), thaw(x), *tuple(n.get('args', ())), **dict(n.get('kwargs', {})))), md)]


class MStarmap(Model):
    def push(self, parent, x, md):
        n = self.spec
        args = thaw(x) + tuple(n.get('args', ()))
        return [(freeze(fns.starf(tuple(n['fn']), *args, **dict(n.get('kwargs', {})))), md)]


class MFilter(Model):
    def push(self, parent, x, md):
        if fns.pred(tuple(self.spec['fn']), thaw(x)):
            return [(x, md)]
        return []


_NO = object()


class MAccumulate(Model):
    def __init__(self, spec):
        Model.__init__(self, spec)
        self.state = freeze_in(spec['start']) if 'start' in spec else _NO

    def push(self, parent, x, md):
        n = self.spec
        xv = thaw(x)
        if self.state is _NO:
            self.state = xv
            result = xv
        else:
            r = fns.fold(tuple(n['fn']), self.state, xv)
            if n.get('returns_state'):
                self.state, result = r
            else:
                self.state = result = r
        if n.get('with_state'):
            return [(freeze((self.state, result)), md)]
        return [(freeze(result), md)]


class MSlice(Model):
    def __init__(self, spec):
        Model.__init__(self, spec)
        self.i = 0

    def push(self, parent, x, md):
        n = self.spec
        start = n.get('start') or 0
        end = n.get('end')
        step = n.get('step') or 1
        i = self.i
        self.i += 1
        if i >= start and (i - start) % step == 0 and (end is None or i < end):
            return [(x, md)]
        return []


class MPartition(Model):
    """partition(n, key): consecutive n-chunks per key.  (The timeout variant
    is asynchronous and checked relationally.)"""
    def __init__(self, spec):
        Model.__init__(self, spec)
        self.buf = {}

    def key(self, x):
        k = self.spec.get('key')
        if k is None:
            return None
        if k[0] == 'index':
            return freeze(thaw(x)[k[1]])
        return freeze(fns.f1(tuple(k), thaw(x)))

    def push(self, parent, x, md):
        b = self.buf.setdefault(self.key(x), [])
        b.append((x, md))
        if len(b) >= self.spec['n']:
            vals = tuple(v for v, _ in b)
            mds = tuple(m for _, ml in b for m in ml)
            del b[:]
            return [(vals, mds)]
        return []

    def flush_key(self, key):
        b = self.buf.get(key) or []
        vals = tuple(v for v, _ in b)
        mds = tuple(m for _, ml in b for m in ml)
        del b[:]
        return (vals, mds)

    def holders(self):
        return [m for b in self.buf.values() for _, ml in b for m in ml]


class MPartitionUnique(Model):
    def __init__(self, spec):
        Model.__init__(self, spec)
        self.buf = {}      # insertion ordered

    def key(self, x):
        k = self.spec.get('key')
        if k is None:
            return x
        if k[0] == 'index':
            return freeze(thaw(x)[k[1]])
        return freeze(fns.f1(tuple(k), thaw(x)))

    def push(self, parent, x, md):
        y = self.key(x)
        if self.spec.get('keep', 'first') == 'last':
            self.buf.pop(y, None)
            self.buf[y] = (x, md)
        else:
            if y not in self.buf:
                self.buf[y] = (x, md)
        if len(self.buf) >= self.spec['n']:
            items = list(self.buf.values())
            self.buf = {}
            return [(tuple(v for v, _ in items), tuple(m for _, ml in items for m in ml))]
        return []

    def holders(self):
        return [m for _, ml in self.buf.values() for m in ml]


class MSlidingWindow(Model):
    def __init__(self, spec):
        Model.__init__(self, spec)
        self.buf = deque(maxlen=spec['n'])

    def push(self, parent, x, md):
        n = self.spec['n']
        self.buf.append((x, md))
        out = []
        if self.spec.get('partial', True) or len(self.buf) == n:
            out = [(tuple(v for v, _ in self.buf), tuple(m for _, ml in self.buf for m in ml))]
        return out

    def holders(self):
        # the window keeps its last n-1 members (all of them while unfilled)
        n = self.spec['n']
        items = list(self.buf)
        if len(items) == n:
            items = items[1:]
        return [m for _, ml in items for m in ml]


class MUnique(Model):
    def __init__(self, spec):
        Model.__init__(self, spec)
        self.seen = []     # most recent first

    def push(self, parent, x, md):
        k = self.spec.get('key')
        y = x if k is None else freeze(fns.f1(tuple(k), thaw(x)))
        ms = self.spec.get('maxsize')
        if y in self.seen:
            if ms:
                self.seen.remove(y)
                self.seen.insert(0, y)
            return []
        self.seen.insert(0, y)
        if ms:
            del self.seen[ms:]
        return [(x, md)]


class MFlatten(Model):
    def push(self, parent, x, md):
        items = x[1:] if (x and x[0] == 'L') else x
        out = [(i, ()) for i in items]
        if out:
            out[-1] = (out[-1][0], md)
        return out


class MPluck(Model):
    def push(self, parent, x, md):
        items = x[1:] if (isinstance(x, tuple) and x and x[0] == 'L') else x
        p = self.spec['pick']
        if isinstance(p, list):
            return [(tuple(items[i] for i in p), md)]
        return [(items[p], md)]


class MCollect(Model):
    def __init__(self, spec):
        Model.__init__(self, spec)
        self.cache = []

    def push(self, parent, x, md):
        self.cache.append((x, md))
        return []

    def flush(self):
        items, self.cache = self.cache, []
        k = self.spec.get('cache_maxlen')
        # (a bounded caller-supplied cache keeps the last k values; the metadata cache is a separate, unbounded one)
        vals = items[-k:] if k else items
        mds = [m for _, ml in items for m in ml]
        km = self.spec.get('md_cache_maxlen')
        if km:
            mds = mds[-km:]
        return [(tuple(v for v, _ in vals), tuple(mds))]

    def holders(self):
        return [m for _, ml in self.cache for m in ml]


class MUnion(Model):
    def push(self, parent, x, md):
        return [(x, md)]


class MZip(Model):
    def __init__(self, spec):
        Model.__init__(self, spec)
        self.ups = list(spec['up'])
        self.buf = {u: deque() for u in self.ups}
        self.lits = {int(k): freeze(freeze_in(v)) for k, v in (spec.get('literals') or {}).items()}

    def pack(self, vals):
        total = len(vals) + len(self.lits)
        vals = list(vals)
        out = []
        for pos in range(total):
            if pos in self.lits:
                out.append(self.lits[pos])
            else:
                out.append(vals.pop(0))
        return tuple(out)

    def push(self, parent, x, md):
        self.buf[parent].append((x, md))
        out = []
        if self.ups and all(self.buf[u] for u in self.ups):
            heads = [self.buf[u].popleft() for u in self.ups]
            out.append((self.pack([v for v, _ in heads]), tuple(m for _, ml in heads for m in ml)))
        return out

    def holders(self):
        return [m for u in self.ups for _, ml in self.buf[u] for m in ml]

    def backlog(self, parent):
        return len(self.buf[parent])


class MCombineLatest(Model):
    def __init__(self, spec):
        Model.__init__(self, spec)
        self.ups = list(spec['up'])
        self.last = {}
        eo = spec.get('emit_on')
        self.emit_on = self.ups if eo is None else [self.ups[i] for i in eo]

    def push(self, parent, x, md):
        self.last[parent] = (x, md)
        if len(self.last) == len(self.ups) and parent in self.emit_on:
            items = [self.last[u] for u in self.ups]
            return [(tuple(v for v, _ in items), tuple(m for _, ml in items for m in ml))]
        return []

    def holders(self):
        return [m for u in self.ups if u in self.last for m in self.last[u][1]]


class MZipLatest(Model):
    def __init__(self, spec):
        Model.__init__(self, spec)
        self.ups = list(spec['up'])
        self.lossless = self.ups[0]
        self.last = {}
        self.queue = deque()
        self.cur0 = None

    def push(self, parent, x, md):
        if parent == self.lossless:
            self.queue.append((x, md))
            seen0 = True
        else:
            self.last[parent] = (x, md)
        others = self.ups[1:]
        out = []
        if all(u in self.last for u in others) and (self.queue or self.cur0 is not None):
            while self.queue:
                self.cur0 = self.queue.popleft()
                items = [self.cur0] + [self.last[u] for u in others]
                out.append((tuple(v for v, _ in items), tuple(m for _, ml in items for m in ml)))
        return out

    def holders(self):
        h = [m for _, ml in self.queue for m in ml]
        for u in self.ups[1:]:
            if u in self.last:
                h.extend(self.last[u][1])
        return h


class MSink(Model):
    def push(self, parent, x, md):
        return []


# ---- asynchronous nodes: only a list-level meaning; timing is not predicted --

class AsyncModel(Model):
    sync = False


class MFifo(AsyncModel):
    """buffer, delay, rate_limit: identity, FIFO"""
    def push(self, parent, x, md):
        return [(x, md)]


class MMapAsync(AsyncModel):
    def push(self, parent, x, md):
        return [(freeze(fns.f1(tuple(self.spec['fn']), thaw(x))), md)]


SYNC_MODELS = {
    'source': MSource, 'external': MSource, 'map': MMap, 'starmap': MStarmap, 'filter': MFilter,
    'accumulate': MAccumulate, 'slice': MSlice, 'partition': MPartition,
    'partition_unique': MPartitionUnique, 'sliding_window': MSlidingWindow,
    'unique': MUnique, 'flatten': MFlatten, 'pluck': MPluck, 'collect': MCollect,
    'union': MUnion, 'zip': MZip, 'combine_latest': MCombineLatest,
    'zip_latest': MZipLatest, 'sink': MSink,
}

ASYNC_OPS = {'buffer', 'delay', 'rate_limit', 'map_async', 'timed_window',
             'timed_window_unique', 'latest', 'scatter', 'gather'}


def is_async_node(spec):
    if spec['op'] in ASYNC_OPS:
        return True
    if spec['op'] == 'partition' and spec.get('timeout') is not None:
        return True
    return False


def make_model(spec):
    if is_async_node(spec):
        return None
    return SYNC_MODELS[spec['op']](spec)
