"""compact printing of scenario files (debugging aid)"""
import json
import sys


def show(sc):
    print('mode=%s tiebreak=%s property=%s expect=%s' % (sc.get('mode'), sc.get('tiebreak'), sc.get('property'), (sc.get('expect') or {}).get('oracle')))
    for n in sc.get('graph', []):
        print('   ', {k: v for k, v in n.items()})
    for p in sc.get('producers', []):
        print('   P', {k: v for k, v in p.items() if k != 'items'},
              [(it.get('gap'), it.get('v', it.get('flush')), it.get('md', 0)) for it in p['items']])
    if sc.get('faults') and (sc['faults'].get('stalls') or sc['faults'].get('fail')):
        print('   faults', sc['faults'])
    if sc.get('expect'):
        print('   =>', sc['expect']['detail'][:300])


if __name__ == '__main__':
    for p in sys.argv[1:]:
        print('==', p)
        show(json.load(open(p)))
