"""C12 - an aggregation that exposes its state can be resumed from the state
emitted after any batch without changing the results (crash/restart with the
exposed state as the only durable object; every cut of every sequence)."""
import copy
import math

from .oracles import Violation
from .fam_pipeline import Outcome

LEVEL = {'C12': 'fault_enumeration'}
CHUNK = {'C12': 8}
COMPONENTS = {
    'real': ['streamz.dataframe.core (DataFrame/Series reductions, GroupBy, Rolling, Window, WindowedGroupBy, Expanding, EWM)',
             'streamz.dataframe.aggregations (accumulators and diff functions)', 'streamz.core accumulate / map', 'pandas'],
    'stub': ['none: the pipeline runs synchronously; the crash is the end of one pipeline object and the start of a new one from a deep copy of the emitted state'],
}
ASSUMPTIONS = {'C12': ['the checkpoint is a deep copy of the state at the instant it is emitted (what a checkpoint writer would persist)',
                       'results are compared with pandas testing equality (exact values, dtype and index; NaN equals NaN)']}
RULE = {'C12': 'batch sequences (random sizes incl. empty batches, NaNs, group keys entering and leaving, increasing timestamps) for '
               'reductions, groupby, rolling (rows and time), window(n), window(value), windowed groupby, expanding and ewm; for every '
               'sequence EVERY cut k is executed (restart from the state emitted after batch k) plus chains of two restarts. '
               'Non-trivial = the resumed pipeline processed at least one non-empty batch; distinct = distinct (aggregation, batch sizes, cut)'}


def make_batches(sc):
    import pandas as pd
    import numpy as np
    out = []
    for b in sc['batches']:
        idx = pd.to_datetime([1_600_000_000 + t for t in b['t']], unit='s')
        x = [float('nan') if v is None else float(v) for v in b['x']]
        df = pd.DataFrame({'x': np.array(x, dtype='float64'), 'y': np.array(x, dtype='float64') * 2 + 1,
                           'name': pd.Series(b['name'], dtype='object')})
        df.index = idx
        out.append(df)
    return out


def build(spec, stream, start, example_rows=0, keep_state=True):
    import pandas as pd
    from streamz.dataframe import DataFrame
    from streamz.dataframe import aggregations as agg
    example = pd.DataFrame({'x': pd.Series([], dtype='float64'), 'y': pd.Series([], dtype='float64'),
                            'name': pd.Series([], dtype='object')})
    example.index = pd.to_datetime([])
    if example_rows:
        # the usual way to declare a streaming dataframe: a few representative rows
        example = pd.DataFrame({'x': [1.0, 2.0, 3.0][:example_rows], 'y': [3.0, 5.0, 7.0][:example_rows],
                                'name': pd.Series(['a', 'b', 'a'][:example_rows], dtype='object')})
        example.index = pd.to_datetime([1_700_000_000 + i for i in range(example_rows)], unit="s")   # (later than any data: time-indexed aggregations need a monotonic index when the example is pushed through the start state)
    sdf = DataFrame(stream, example=example)
    k = spec['kind']
    op = spec.get('op')
    frame = spec.get('frame', False)          # aggregate a two-column frame instead of one column
    col = (lambda o: o[['x', 'y']]) if frame else (lambda o: o.x)
    if spec.get('elementwise') and k in ('window', 'expanding'):
        # an element-wise operation on the window object before aggregating: (w.x * 2).sum()
        base_col = col
        col = lambda o: base_col(o) * 2        # noqa
    if k == 'red':
        if op in ('sum', 'count'):
            return getattr(col(sdf), op)(start=start), False
        A = {'mean': agg.Mean, 'var': agg.Var}[op]()
        # (example given: accumulate_partitions would otherwise hand with_state to the accumulator)
        ex = (None, pd.Series({'x': 0.0, 'y': 0.0})) if frame else (None, 0.0)
        return col(sdf).accumulate_partitions(agg.accumulator, agg=A, start=start, stream_type='updating',
                                           returns_state=True, with_state=True, example=ex), True
    # the grouper: a column name, or a streaming series (an array-like grouper travels with the state)
    grouper = sdf.name if spec.get('series_grouper') else 'name'
    if k == 'gb':
        g = sdf.groupby(grouper).x
        if op in ('sum', 'count'):
            return getattr(g, op)(start=start), False
        return g.mean(with_state=True, start=start), True
    if k == 'rolling':
        r = col(sdf.rolling(spec['window'], with_state=True, start=() if start is None else start))
        return getattr(r, op)(), True
    if k == 'window':
        if not keep_state:
            # the last stage of a resumed run does not have to expose its state again
            w = col(sdf.window(n=spec.get('n'), value=spec.get('value'), start=start))
            return (w.size if op == 'size' else getattr(w, op)()), False
        w = col(sdf.window(n=spec.get('n'), value=spec.get('value'), with_state=True, start=start))
        if op == 'size':
            return w.size, True
        return getattr(w, op)(), True
    if k == 'wgb':
        w = sdf.window(n=spec.get('n'), value=spec.get('value'), with_state=True, start=start).groupby(grouper).x
        return getattr(w, op)(), True
    if k == 'expanding':
        w = col(sdf.expanding(with_state=True, start=start))
        return getattr(w, op)(), True
    if k == 'ewm':
        return col(sdf.ewm(com=spec['com'], with_state=True, start=start)).mean(), True
    raise ValueError(k)


class _ConsumerFailed(Exception):
    pass


def run_pipeline(spec, batches, start, example_rows=0, snapshot=True, fail_at=(), keep_state=True):
    """-> list of (state snapshot, result) per batch.  fail_at: batch numbers at which a second consumer,
    attached after the recorder, raises; the producer catches that and carries on (the recorder has the
    checkpoint of that batch, so the run must continue from exactly that state)"""
    from streamz import Stream
    stream = Stream()
    out, with_state = build(spec, stream, start, example_rows, keep_state)
    L = out.stream.sink_to_list()
    res = []
    if fail_at:
        seen = [0]

        def alert(v):
            seen[0] += 1
            if seen[0] - 1 in fail_at:
                raise _ConsumerFailed()
        out.stream.sink(alert)
    for df in batches:
        n0 = len(L)
        try:
            stream.emit(df)
        except _ConsumerFailed:
            pass
        new = L[n0:]
        if len(new) != 1:
            res.append((COUNT, len(new)))
            continue
        v = new[0]
        if with_state:
            state, result = v
        else:
            state = result = v
        res.append((copy.deepcopy(state) if snapshot else state, copy.deepcopy(result)))
    import streamz.sinks
    streamz.sinks._global_sinks.clear()
    return res


COUNT = object()     # marker: the batch produced a number of emissions other than one


def same(a, b):
    import pandas as pd
    import numpy as np
    if isinstance(a, tuple) and isinstance(b, tuple):
        return len(a) == len(b) and all(same(x, y) for x, y in zip(a, b))
    if isinstance(a, pd.DataFrame) and isinstance(b, pd.DataFrame):
        try:
            pd.testing.assert_frame_equal(a, b, check_exact=True)
            return True
        except AssertionError:
            return False
    if isinstance(a, pd.Series) and isinstance(b, pd.Series):
        try:
            pd.testing.assert_series_equal(a, b, check_exact=True)
            return True
        except AssertionError:
            return False
    if isinstance(a, (pd.DataFrame, pd.Series)) or isinstance(b, (pd.DataFrame, pd.Series)):
        return False
    try:
        if a != a and b != b:       # NaN
            return True
    except Exception:
        pass
    try:
        r = (a == b)
        return bool(r)
    except Exception:
        return False


def brief(v):
    import pandas as pd
    if isinstance(v, (pd.DataFrame, pd.Series)):
        return v.to_dict() if len(v) <= 6 else '<%s len %d>' % (type(v).__name__, len(v))
    return repr(v)[:120]


def evaluate(prop, sc, want_trace=False):
    import warnings
    warnings.simplefilter('ignore')
    out = Outcome()
    spec = sc['agg']
    batches = make_batches(sc)
    V = []
    ex_rows = sc.get('example_rows', 0)
    by_ref = sc.get('by_reference', False)
    try:
        # by_reference: the emitted state objects are kept as they are (a sink_to_list), the
        # uninterrupted run goes on, and the restart uses them afterwards
        base = run_pipeline(spec, batches, None, ex_rows, snapshot=not by_ref, fail_at=tuple(sc.get('consumer_fails_at', ())))
    except Exception as e:     # noqa
        # the uninterrupted run itself failing is not this property's business
        out.status = 'base_failed:%s' % type(e).__name__
        out.signature = repr(spec) + out.status
        return out
    out.signature = repr((spec, [len(b['x']) for b in sc['batches']], ex_rows, by_ref))
    n = len(batches)
    runs = 0
    cuts = sc.get('cuts')
    if cuts is None:
        cuts = [[k] for k in range(1, n)] + [list(c) for c in sc.get('chains', [])]
    for chain in cuts:
        state = None
        pos = 0
        ok = True
        for ci, k in enumerate(chain + [n]):
            seg = batches[pos:k]
            if ci == 0:
                results = base[pos:k]
            else:
                try:
                    last_stage = ci == len(chain)
                    results = run_pipeline(spec, seg, state if by_ref else copy.deepcopy(state), ex_rows, snapshot=not by_ref,
                                           keep_state=not (last_stage and sc.get('resume_without_state')))
                    runs += 1
                except Exception as e:     # noqa
                    V.append(Violation('C12', 'C12.resume_raised', 0,
                                       '%r resumed from the state emitted after batch %d raised %s: %s'
                                       % (spec, pos, type(e).__name__, str(e)[:120]), node_op=spec['kind'], agg_op=spec.get('op')))
                    ok = False
                    break
                for j, (got, exp) in enumerate(zip(results, base[pos:k])):
                    if got[0] is COUNT or exp[0] is COUNT:
                        if got != exp:
                            V.append(Violation('C12', 'C12.resume_mismatch', 0,
                                               '%r resumed after batch %d: batch %d produced %r emissions, uninterrupted %r'
                                               % (spec, pos, pos + j + 1, got, exp), node_op=spec['kind'], agg_op=spec.get('op')))
                            ok = False
                            break
                        continue
                    if not same(got[1], exp[1]):
                        V.append(Violation('C12', 'C12.resume_mismatch', 0,
                                           '%r restarted from the state emitted after batch %d (cuts %r): result for batch %d is %s, the uninterrupted run gives %s'
                                           % (spec, pos, chain, pos + j + 1, brief(got[1]), brief(exp[1])),
                                           node_op=spec['kind'], agg_op=spec.get('op')))
                        ok = False
                        break
                if not ok:
                    break
                if any(len(b) for b in seg):
                    out.probes['resumed_with_data'] = out.probes.get('resumed_with_data', 0) + 1
            if k >= n:
                break
            last = results[-1] if results else None
            if last is None or last[0] is COUNT:
                ok = False
                break
            state = last[0]
            pos = k
        if V:
            break
    out.extra_runs = runs
    out.faults['restart'] = runs
    out.violations = V[:1]
    out.nontrivial = 'resumed_with_data' in out.probes
    if any(len(b['x']) == 0 for b in sc['batches']):
        out.probes['empty_batch'] = 1
    if any(v is None for b in sc['batches'] for v in b['x']):
        out.probes['nan'] = 1
    out.probes['agg:' + spec['kind']] = 1
    if spec.get('frame'):
        out.probes['frame_level'] = 1
    if spec.get('series_grouper'):
        out.probes['series_grouper'] = 1
    if ex_rows:
        out.probes['non_empty_example'] = 1
    if by_ref:
        out.probes['state_kept_by_reference'] = 1
    if sc.get('consumer_fails_at'):
        out.probes['a_consumer_failed_during_the_run'] = 1
    out.events = runs
    return out


OPS = {
    'red': ['sum', 'count', 'mean', 'var'],
    'gb': ['sum', 'count', 'mean'],
    'rolling': ['sum', 'mean', 'min', 'max', 'count'],
    'window': ['sum', 'mean', 'count', 'var', 'size'],
    'wgb': ['sum', 'mean', 'count'],
    'expanding': ['sum', 'mean', 'count', 'var'],
}


def generate(prop, rng, seed, index, tier):
    big = tier == 'thorough'
    kind = rng.choice(['red', 'gb', 'rolling', 'rolling', 'window', 'window', 'wgb', 'expanding', 'ewm'])
    spec = {'kind': kind}
    if kind in OPS:
        spec['op'] = rng.choice(OPS[kind])
    if kind == 'rolling':
        spec['window'] = rng.choice([1, 2, 3, 5, '2s', '5s'])
    if kind in ('window', 'wgb'):
        if rng.random() < 0.6:
            spec['n'] = rng.choice([1, 2, 3, 5, 8])
        else:
            spec['value'] = rng.choice(['2s', '5s', '10s'])
    if kind == 'ewm':
        spec['com'] = rng.choice([0.5, 1, 2, 5])
    if kind in ('gb', 'wgb') and rng.random() < 0.45:
        spec['series_grouper'] = True
    if kind in ('red', 'rolling', 'window', 'expanding', 'ewm') and spec.get('op') != 'size' and rng.random() < 0.35:
        spec['frame'] = True
    if spec['kind'] in ('window', 'expanding') and spec.get('op') not in ('size',) and rng.random() < 0.25:
        spec['elementwise'] = True
    nb = rng.randrange(2, 9 if big else 7)
    t = 0
    batches = []
    names = rng.choice([['a'], ['a', 'b'], ['a', 'b', 'c']])
    for _ in range(nb):
        size = rng.choice([0, 1, 1, 2, 3, 4, 6]) if rng.random() < 0.9 else 0
        if spec.get('op') == 'var' and size == 0 and not batches:
            size = 2          # (a variance over nothing fails in the uninterrupted run already)
        ts, xs, ns = [], [], []
        for _ in range(size):
            t += rng.choice([0, 1, 1, 2, 4])
            ts.append(t)
            xs.append(None if rng.random() < 0.08 else rng.randrange(-5, 20))
            ns.append(rng.choice(names))
        batches.append({'t': ts, 'x': xs, 'name': ns})
    chains = []
    if nb >= 3:
        for _ in range(2):
            a = rng.randrange(1, nb - 1)
            b = rng.randrange(a + 1, nb)
            chains.append([a, b])
    return {'format': 1, 'family': 'aggstate', 'property': 'C12', 'seed': seed, 'index': index,
            'agg': spec, 'batches': batches, 'chains': chains,
            'example_rows': rng.choice([0, 0, 1, 2, 3]), 'by_reference': rng.random() < 0.3,
            'resume_without_state': spec['kind'] == 'window' and rng.random() < 0.3,
            'consumer_fails_at': sorted(set(rng.randrange(0, 6) for _ in range(rng.randrange(1, 3)))) if rng.random() < 0.2 else []}


def shrink_candidates(sc):
    def clone():
        return copy.deepcopy(sc)
    if sc.get('chains'):
        c = clone()
        c['chains'] = []
        yield c
    if sc.get('example_rows'):
        c = clone()
        c['example_rows'] = 0
        yield c
    if sc.get('by_reference'):
        c = clone()
        c['by_reference'] = False
        yield c
    nb = len(sc['batches'])
    for i in range(nb - 1, -1, -1):
        if nb > 2:
            c = clone()
            del c['batches'][i]
            c['chains'] = []
            yield c
    for i, b in enumerate(sc['batches']):
        for j in range(len(b['x']) - 1, -1, -1):
            c = clone()
            for key in ('t', 'x', 'name'):
                del c['batches'][i][key][j]
            yield c
    for i, b in enumerate(sc['batches']):
        for j, v in enumerate(b['x']):
            if v not in (1, None):
                c = clone()
                c['batches'][i]['x'][j] = 1
                yield c
            if b['name'][j] != 'a':
                c = clone()
                c['batches'][i]['name'][j] = 'a'
                yield c
