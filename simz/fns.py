"""Catalogue of pure user functions over ints and nested tuples/lists of ints.

They are the *user's* code (not the system under test), so the same definition
is used by the real pipeline (wrapped with logging / latency / faults) and by
the reference models.  Nothing here depends on hash randomisation.
"""

TOKEN_BASE = 10000     # entry-point elements are ints >= TOKEN_BASE; tags are small


def weight(x):
    if isinstance(x, (tuple, list)):
        return sum(weight(i) for i in x)
    if isinstance(x, int):
        return x
    return 0


def tokens(x, acc=None):
    """The entry-point tokens a value was made of."""
    if acc is None:
        acc = []
    if isinstance(x, (tuple, list)):
        for i in x:
            tokens(i, acc)
    elif isinstance(x, int) and x >= TOKEN_BASE:
        acc.append(x)
    return acc


def freeze(x):
    if isinstance(x, list):
        return ('L',) + tuple(freeze(i) for i in x)
    if isinstance(x, tuple):
        return tuple(freeze(i) for i in x)
    if x is None or isinstance(x, (int, float, str)):
        return x
    if isinstance(x, dict):
        return ('D',) + tuple((freeze(k), freeze(v)) for k, v in x.items())
    return repr(x)        # foreign objects (cluster futures) by their deterministic repr


# ---- one-argument functions (map, map_async, key functions) ---------------

def f1(spec, x):
    op = spec[0]
    if op == 'tag':
        return (spec[1], x)
    if op == 'ident':
        return x
    if op == 'wrap':
        return (x,)
    if op == 'pair':
        return (x, spec[1])
    if op == 'torange':     # a collection that is neither list nor dict nor tuple (Client.scatter would unpack it)
        return range(x, x + spec[1])
    if op == 'totuple':
        return tuple(x)
    if op == 'wmod':
        return weight(x) % spec[1]
    if op == 'idx':
        return x[spec[1]]
    if op == 'fanout':      # for flatten: k tagged copies that stay distinguishable
        return tuple((j, x) for j in range(spec[1]))
    if op == 'falsy':       # some elements become a falsy value (0, () or None): code must not confuse "empty" with "absent"
        if weight(x) % spec[1] == spec[2]:
            return ((), 0, None)[spec[3]]
        return x
    if op == 'wcap':        # feedback template: folds any value into a bounded entry-point-like int
        return TOKEN_BASE + weight(x) % spec[1]
    if op == 'grow':        # feedback template: expands small ints, stops at K
        return (x + 1, x + 2) if x < spec[1] else ()
    if op == 'growback':    # feedback template with links back to ancestors (a crawler meeting a -> b -> a)
        K, base = spec[1], spec[2]
        if x >= K:
            return (x - 1,) if x > base else ()
        return (x + 1, x - 1, x) if x > base else (x + 1, x)
    raise ValueError(spec)


def mapf(spec, x, *args, **kwargs):
    """map(func, *args, **kwargs): the element comes first, then the extras (asymmetric on purpose)"""
    if not args and not kwargs:
        return f1(spec, x)
    out = (f1(spec, x),) + tuple(args)
    if kwargs:
        out = out + tuple(v for k, v in sorted(kwargs.items()))
    return out


def shared_map(x, *args, **kwargs):
    """a plain module-level function shared by several map nodes (spec ('tag', 0))"""
    return mapf(('tag', 0), x, *args, **kwargs)


def pred(spec, x):
    op = spec[0]
    if op == 'wmod':       # keep unless weight % m == r
        return weight(x) % spec[1] != spec[2]
    if op == 'true':
        return True
    if op == 'false':
        return False
    raise ValueError(spec)


def fold(spec, state, x):
    """accumulate binop.  State stays small: (digest, last element)."""
    d = (weight(state) * 31 + weight(x) * 7 + spec[1]) % 9973
    new_state = (d, x)
    if spec[0] == 'fold':
        return new_state
    if spec[0] == 'addcap':      # feedback template: a bounded running total that stays an entry-point-like int
        return TOKEN_BASE + (weight(state) + weight(x) + 1) % spec[1]
    if spec[0] == 'fold_rs':     # returns_state=True: (state, result)
        return new_state, (d, 1, x)
    raise ValueError(spec)


def starf(spec, *args, **kwargs):
    out = (spec[1],) + tuple(args)
    if kwargs:
        out = out + tuple(v for k, v in sorted(kwargs.items()))
    return out


class InjectedFailure(Exception):
    def __init__(self, node, call):
        Exception.__init__(self, 'injected failure node=%s call=%s' % (node, call))
        self.node = node
        self.call = call
