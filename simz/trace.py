"""Trace recorder shared by all harness families.

Events are plain tuples ``(seq, vt, kind, ...)`` made of ints / floats / strings /
nested tuples only, so that the canonical JSON of a trace is independent of
``id()`` and of hash randomisation; its SHA-256 is the run digest.
"""
import hashlib
import json


def canon(v):
    """Values -> JSON-able canonical form (tuples and lists are told apart)."""
    if isinstance(v, tuple):
        return {'t': [canon(i) for i in v]}
    if isinstance(v, list):
        return [canon(i) for i in v]
    if isinstance(v, (int, float, str)) or v is None or isinstance(v, bool):
        return v
    if isinstance(v, dict):
        return {'d': [[canon(k), canon(x)] for k, x in sorted(v.items(), key=lambda kv: repr(kv[0]))]}
    return {'o': type(v).__name__}


class Recorder:
    def __init__(self, loop=None):
        self.events = []
        self.loop = loop
        self.root = None          # emit whose synchronous extent we are in
        self.depth = 0
        self.watch = []           # (node, idx, awaitable, dict) polled for completion
        self.overloaded = False
        self.event_cap = 40000    # runs that grow beyond this are counted as step_cap, never judged
        from . import loop as _l
        _l.bg_exception_hook[0] = self._bg

    def _bg(self, record):
        exc = record.exc_info[1] if record.exc_info else None
        import os
        if os.environ.get('SIMZ_DEBUG_BG'):
            import traceback
            print('BG', record.getMessage()[:300])
            if record.exc_info:
                traceback.print_exception(*record.exc_info)
        msg = record.getMessage()
        if 'was never retrieved' in msg or 'was destroyed' in msg:
            # logged when the object is garbage collected: not a deterministic
            # moment.  Dead tasks are reported by the executor at the end of the run.
            return
        if exc is None:
            self.rec('bg_exc', 'log', msg[:60])
            return
        from .fns import InjectedFailure
        if isinstance(exc, InjectedFailure):
            self.rec('bg_exc', 'injected', exc.node, exc.call)
        else:
            self.rec('bg_exc', type(exc).__name__, str(exc)[:60])

    def now(self):
        lp = self.loop
        return lp._vt if lp is not None else 0.0

    def rec(self, kind, *args):
        lp = self.loop
        if lp is not None:
            lp.activity += 1
        ev = (len(self.events), lp._vt if lp is not None else 0.0, kind) + args
        self.events.append(ev)
        if self.watch:
            if len(self.watch) > 300:
                # an overloaded pipeline (unbounded pile-up): stop tracking acceptance times
                self.watch = []
                self.overloaded = True
            else:
                self._poll(ev[0])
        if ev[0] > self.event_cap and lp is not None:
            lp.cap_hit = True          # the loop stops at its next iteration boundary
        return ev[0]

    def _poll(self, seq):
        keep = []
        for w in self.watch:
            if w[2].done():
                w[3][w[1]] = seq
            else:
                keep.append(w)
        self.watch = keep

    def digest(self):
        h = hashlib.sha256()
        for ev in self.events:
            # tuples of ints / floats / strings / None only: repr is canonical
            h.update(repr(ev).encode())
            h.update(b'\n')
        return h.hexdigest()

    def signature(self):
        """Schedule signature: the sequence of (kind, node) without values/times."""
        h = hashlib.sha256()
        for ev in self.events:
            k = ev[2]
            n = ev[3] if len(ev) > 3 and isinstance(ev[3], (int, str)) else ''
            h.update(('%s:%s;' % (k, n)).encode())
        return h.hexdigest()[:16]


def fmt_event(ev):
    return '%5d t=%-8g %-10s %s' % (ev[0], ev[1], ev[2], ' '.join(repr(a) for a in ev[3:]))
