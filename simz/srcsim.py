"""Sources on the simulated loop: from_textfile / filenames / from_periodic /
from_iterable with a fake file, a fake glob, logged callbacks and iterators,
slow sinks, scripted appends and start()/stop() calls (families C17 and C18)."""
import asyncio

from tornado import gen

from . import loop as simloop
from .trace import Recorder


class _Quiet:
    def rec(self, *a):
        pass


class FakeFile:
    """Append-only text 'file': read() returns what is there now (optionally a
    short read), seek(0, 2) jumps to the end."""
    def __init__(self, rec, text='', short=None):
        self.rec = rec
        self.data = text
        self.pos = 0
        self.short = list(short or [])
        self.nread = 0

    def append(self, s):
        self.data += s
        self.rec.rec('append', s)

    def read(self, *a):
        avail = self.data[self.pos:]
        lim = None
        if self.short:
            lim = self.short[self.nread % len(self.short)]
        self.nread += 1
        out = avail if lim is None else avail[:lim]
        self.pos += len(out)
        self.rec.rec('cycle', 'read', out)
        return out

    def seek(self, off, whence=0):
        if whence == 2:
            self.pos = len(self.data) + off
        elif whence == 0:
            self.pos = off
        self.rec.rec('seek', self.pos)
        return self.pos

    def close(self):
        pass


class TextOverBytes:
    """what open(path) in text mode gives: every read() decodes the new bytes on their own and to the end
    (TextIOWrapper.read() without a size finalises its decoder), so bytes that stop in the middle of a multi-byte
    character raise UnicodeDecodeError"""
    def __init__(self, raw):
        self.raw = raw

    def read(self, *a):
        return self.raw.read().decode('utf-8').replace('\r\n', '\n')

    def seek(self, off, whence=0):
        return self.raw.seek(off, whence)

    def close(self):
        pass


class FakeFS:
    def __init__(self, rec, order_key):
        self.rec = rec
        self.files = []
        self.spelling = None
        self.order_key = order_key     # name -> sort key used by the fake listing

    def create(self, name):
        self.files.append(name)
        self.rec.rec('create', name)

    def delete(self, name):
        if name in self.files:
            self.files.remove(name)
        self.rec.rec('delete', name)

    def glob(self, pattern):
        out = sorted(self.files, key=lambda n: self.order_key.get(n, 0))
        if self.spelling:
            # glob hands paths back in the spelling of the pattern ('/data//*' -> '/data//f01')
            out = [n.replace('/data/', self.spelling, 1) for n in out]
        # (the second source of a 'twin' scenario watches the same files through another pattern)
        self.rec.rec('cycle', 'glob', tuple(out)) if pattern != '/data/f*' else self.rec.rec('twin_glob', tuple(out))
        return list(out)


class LoggedIter:
    def __init__(self, rec, items):
        self.rec = rec
        self.items = list(items)
        self.i = 0

    def __iter__(self):
        return self

    def __next__(self):
        if self.i >= len(self.items):
            self.rec.rec('cycle', 'next', None)
            raise StopIteration
        v = self.items[self.i]
        self.i += 1
        self.rec.rec('cycle', 'next', v)
        return v


class LoggedGen(LoggedIter):
    """a generator-like one-shot iterator: close() ends it for good"""
    def close(self):
        self.rec.rec('iter_closed', self.i)
        self.i = len(self.items)


class LoggedList:
    """re-iterable: every iteration starts from the beginning"""
    def __init__(self, rec, items):
        self.rec = rec
        self.items = list(items)

    def __iter__(self):
        self.rec.rec('cycle', 'iter', None)
        return LoggedIter(self.rec, self.items)


def make_sink(rec, spec, state):
    kind = spec.get('kind', 'sync')
    lat = spec.get('lat') or [None]

    def begin(x):
        k = state['n']
        state['n'] += 1
        rec.rec('sink_start', k, x)
        if spec.get('fail_at') == k:
            # the consumer raises for this one element (the source's polling loop dies of it; the item counts as handled)
            rec.rec('sink_end', k)
            rec.rec('sink_raised', k)
            raise RuntimeError('injected sink failure')
        return k, lat[k % len(lat)]

    if kind == 'sync':
        def f(x):
            k, _ = begin(x)
            rec.rec('sink_end', k)
        return f
    if kind == 'native':
        async def inner(x, k, d):
            if d is not None:
                await asyncio.sleep(d)
            rec.rec('sink_end', k)

        def f(x):
            k, d = begin(x)
            return inner(x, k, d)
        return f

    @gen.coroutine
    def inner_t(x, k, d):
        if d is not None:
            yield gen.sleep(d)
        rec.rec('sink_end', k)

    def f(x):
        k, d = begin(x)
        return inner_t(x, k, d)
    return f


def run_source(sc):
    """-> (events, status)"""
    simloop.install_seams()
    import streamz.sources
    from streamz import Stream
    lp = simloop.new_loop(sc.get('tiebreak', 'fifo'), sc.get('tiebreak_seed', 0))
    lp.step_cap = 300_000
    rec = Recorder(lp)
    status = ['ok']
    s = sc['source']
    keep = []
    S2 = {}

    async def main():
        from tornado.ioloop import IOLoop
        tl = IOLoop.current()
        kw = {'asynchronous': True, 'loop': tl}
        if s.get('start_true'):
            kw['start'] = True
            rec.rec('start_call')
        fobj = fs = None
        if s['type'] == 'textfile' and s.get('by_path'):
            # the source is given a file *name* and opens the file itself: the writes are byte strings that may
            # end in the middle of a multi-byte character
            fobj = FakeFile(rec, bytes.fromhex(s.get('pre_hex', '')), s.get('short'))

            fobj2 = FakeFile(_Quiet(), b'', None)      # (the second file's reads are not part of the trace)
            S2['fobj2'] = fobj2

            def fake_open(path, mode='r', *a, **k):
                rec.rec('open', mode)
                f_ = fobj2 if path == '/data/other.txt' else fobj
                return f_ if 'b' in mode else TextOverBytes(f_)
            streamz.sources.open = fake_open
            src = Stream.from_textfile('/data/log.txt', poll_interval=s['poll'], delimiter=s.get('delimiter', '\n'), **kw)
        elif s['type'] == 'textfile':
            fobj = FakeFile(rec, s.get('pre', ''), s.get('short'))
            src = Stream.from_textfile(fobj, poll_interval=s['poll'], delimiter=s.get('delimiter', '\n'),
                                       from_end=s.get('from_end', False), **kw)
        elif s['type'] == 'filenames':
            fs = FakeFS(rec, s.get('order_key', {}))
            for name in s.get('pre', []):
                fs.files.append(name)
            streamz.sources.glob = fs.glob
            fs.spelling = s.get('spelling')
            src = Stream.filenames((s.get('spelling') or '/data/') + '*', poll_interval=s['poll'], **kw)
        elif s['type'] == 'periodic':
            cnt = [0]

            def cb():
                cnt[0] += 1
                rec.rec('cycle', 'cb', cnt[0])
                return cnt[0]
            src = Stream.from_periodic(cb, poll_interval=s['poll'], **kw)
        elif s['type'] == 'custom':
            # a user's own source: a Source subclass whose run() is a tornado coroutine (the class docstring
            # invites overriding run); one cycle = produce the next number, hand it on, sleep
            from streamz.sources import Source
            cnt2 = [0]

            class Ticker(Source):
                @gen.coroutine
                def run(self):
                    while not self.stopped:
                        cnt2[0] += 1
                        rec.rec('cycle', 'cb', cnt2[0])
                        yield self._emit(cnt2[0])
                        yield gen.sleep(s['poll'])
            src = Ticker(**kw)
        elif s['type'] == 'iterable':
            it = (LoggedGen if s.get('gen_like') else LoggedIter)(rec, s['items']) if s.get('one_shot', True) else LoggedList(rec, s['items'])
            src = Stream.from_iterable(it, **kw)
        else:
            raise ValueError(s['type'])
        keep.append(src)
        node = src
        if sc.get('via_map'):
            node = src.map(lambda x: x)
            keep.append(node)
        state = {'n': 0}
        keep.append(node.sink(make_sink(rec, sc.get('sink', {}), state)))
        twin = None
        if s['type'] == 'textfile' and s.get('twin_text'):
            twin = Stream.from_textfile('/data/other.txt', poll_interval=s['poll'], delimiter=s.get('delimiter', '\n'), **kw)
            keep.append(twin)
            keep.append(twin.sink(lambda x: rec.rec('twin_emit', x)))
        if s['type'] == 'filenames' and s.get('twin'):
            # a second, independent source watching the same directory (another consumer of the same files):
            # what one source has emitted is no business of the other
            twin = Stream.filenames('/data/f*', poll_interval=s['poll'], **kw)
            keep.append(twin)
            keep.append(twin.sink(lambda x: rec.rec('twin_emit', x)))
        ops = sorted(enumerate(sc['ops']), key=lambda p: (p[1]['t'], p[0]))
        for _, op in ops:
            dt = op['t'] - lp.time()
            if dt > 0:
                await asyncio.sleep(dt)
            if op.get('skip'):
                # differential twin: identical driver timing, the call is left out
                continue
            k = op['op']
            if k == 'start':
                rec.rec('start_call')
                src.start()
                if twin is not None:
                    twin.start()
            elif k == 'stop':
                rec.rec('stop_call')
                src.stop()
                if twin is not None:
                    twin.stop()
            elif k == 'append' and op.get('file') == 2:
                S2['fobj2'].append(bytes.fromhex(op['hex']))
            elif k == 'append':
                fobj.append(bytes.fromhex(op['hex']) if 'hex' in op else op['data'])
            elif k == 'create':
                fs.create(op['name'])
            elif k == 'delete':
                fs.delete(op['name'])
        await asyncio.sleep(sc.get('drain', 30))
        rec.rec('end')

    try:
        with simloop.guard_blocking():
            lp.run_until_complete(main())
    except simloop.Deadlock:
        status[0] = 'deadlock'
        rec.rec('deadlock')
    except simloop.Livelock:
        status[0] = 'livelock'
    except simloop.StepCap:
        status[0] = 'step_cap'
    finally:
        for name, exc in lp.dead_tasks():
            rec.rec('task_exc', name, type(exc).__name__, str(exc)[:80])
        simloop.dispose_loop(lp)
        if 'open' in vars(streamz.sources):
            del streamz.sources.open
        from .pipeline import _reset_streamz
        _reset_streamz()
        import glob as _g
        streamz.sources.glob = _g.glob
    return rec, status[0]
