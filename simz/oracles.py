"""Oracles of the pipeline family, evaluated over a recorded trace.

Each check returns Violation objects naming the property, the oracle id and the
event index.  Oracles never predict timing: synchronous nodes are checked
exactly against the reference models, asynchronous ones relationally on their
own in/out traces; liveness is only asserted at quiescence.
"""
from collections import defaultdict, deque

from . import fns, models
from .fns import freeze
from .models import make_model, is_async_node, thaw


OP_NAMES = sorted(['map_async', 'starmap', 'map', 'filter', 'accumulate', 'slice', 'partition_unique',
                   'partition', 'sliding_window', 'unique', 'flatten', 'pluck', 'collect', 'union',
                   'zip_latest', 'zip', 'combine_latest', 'buffer', 'delay', 'rate_limit',
                   'timed_window_unique', 'timed_window', 'latest', 'sink', 'source', 'scatter', 'gather'],
                  key=lambda x: -len(x))


def _first_op(text):
    best = None
    for op in OP_NAMES:
        i = text.find(op)
        if i >= 0 and (best is None or i < best[0] or (i == best[0] and len(op) > len(best[1]))):
            best = (i, op)
    return best[1] if best else None


class Violation:
    def __init__(self, prop, oracle, seq, detail, **info):
        self.prop = prop
        self.oracle = oracle
        self.seq = seq
        self.detail = detail
        self.info = dict(info)
        if 'node_op' not in self.info:
            self.info['node_op'] = _first_op(detail)

    def key(self):
        return (self.prop, self.oracle)

    def __repr__(self):
        return 'Violation(%s %s @%s: %s)' % (self.prop, self.oracle, self.seq, self.detail)

    def to_json(self):
        return {'property': self.prop, 'oracle': self.oracle, 'event': self.seq,
                'detail': self.detail, 'info': self.info}


class Rec(dict):
    __getattr__ = dict.__getitem__

    def __setattr__(self, k, v):
        self[k] = v


BUFFERING_FIFO = ('buffer', 'delay', 'rate_limit')


class Analysis:
    def __init__(self, sc, res):
        self.sc = sc
        self.res = res
        self.ev = res.events
        self.spec = {n['id']: n for n in sc['graph']}
        self.order = [n['id'] for n in sc['graph']]
        self.children = defaultdict(list)
        for n in sc['graph']:
            for u in n.get('up', []):
                if n['id'] not in self.children[u]:
                    self.children[u].append(n['id'])
        for fb in sc.get('feedback', []):
            self.children[fb['from']].append(fb['to'])
        self.quiescent = res.status == 'ok' and any(e[2] == 'quiescent' for e in self.ev)
        self.injected = bool((sc.get('faults') or {}).get('fail'))
        self.stalled = bool((sc.get('faults') or {}).get('stalls'))
        self._index()
        # drained: quiescent and nothing is blocked for ever on downstream
        # backpressure (whether such blocking is legitimate is C03.stuck_emit's business)
        self.drained = self.quiescent and all(a.end is not None for a in self.acts) and \
            all(m.done is not None for m in self.emits.values()) and \
            not res.pending_aw

    # ------------------------------------------------------------------
    def _index(self):
        self.ins = defaultdict(list)
        self.outs = defaultdict(list)
        self.acts = []
        self.acts_by = {}
        self.emits = {}
        self.flushes = defaultdict(list)
        self.bg = []
        self.orphans = []
        stack = []
        for e in self.ev:
            seq, t, k = e[0], e[1], e[2]
            if k == 'in':
                r = Rec(seq=seq, t=t, node=e[3], parent=e[4], value=e[5], md=e[6], root=e[7],
                        depth=e[8], ret=None, exc=False, own_fail=False, idx=len(self.ins[e[3]]),
                        outs=[], kind='in', via=None)
                self.ins[e[3]].append(r)
                if stack and stack[-1].kind == 'out' and stack[-1].node == r.parent and stack[-1].depth == r.depth - 1:
                    r.via = stack[-1]
                    stack[-1].kids.append(r)
                else:
                    self.orphans.append(r)
                stack.append(r)
            elif k in ('in_ret', 'in_exc'):
                r = stack.pop()
                assert r.kind == 'in' and r.node == e[3], (r, e)
                r.ret = seq
                r.exc = (k == 'in_exc')
                r.retkind = e[5] if k == 'in_ret' else 'exc'
            elif k == 'out':
                r = Rec(seq=seq, t=t, node=e[3], value=e[4], md=e[5], root=e[6], depth=e[7],
                        ret=None, idx=len(self.outs[e[3]]), kind='out', cause=None, kids=[])
                # the innermost open in/flush of the same node is the cause
                for s in reversed(stack):
                    if s.kind in ('in', 'flush') and s.node == r.node and s.depth == r.depth - 1:
                        r.cause = s
                        s.outs.append(r)
                        break
                    if s.kind in ('in', 'flush') and s.node == r.node:
                        break
                self.outs[e[3]].append(r)
                stack.append(r)
            elif k == 'out_ret':
                r = stack.pop()
                assert r.kind == 'out' and r.node == e[3], (r, e)
                r.ret = seq
            elif k == 'flush_call':
                r = Rec(seq=seq, t=t, node=e[3], depth=-1, ret=None, outs=[], kind='flush', exc=False)
                self.flushes[e[3]].append(r)
                stack.append(r)
            elif k in ('flush_ret', 'flush_exc'):
                r = stack.pop()
                r.ret = seq
                r.exc = k == 'flush_exc'
            elif k == 'fn_start':
                a = Rec(seq=seq, t=t, node=e[3], call=e[4], kind=e[5], value=e[6], md=e[7],
                        root=e[8], end=None, end_t=None, ok=None)
                self.acts.append(a)
                self.acts_by[(e[3], e[4])] = a
            elif k == 'fn_end':
                a = self.acts_by[(e[3], e[4])]
                a.end = seq
                a.end_t = t
                a.ok = (e[5] == 'ok')
                if not a.ok:
                    # whose update was this?  the innermost open 'in' of that node
                    for s in reversed(stack):
                        if s.kind == 'in' and s.node == a.node:
                            s.own_fail = True
                            break
            elif k == 'emit_call':
                self.emits[(e[3], e[4])] = Rec(pid=e[3], k=e[4], entry=e[5], value=e[6], md=e[7],
                                              call=seq, t=t, ret=None, done=None, done_t=None,
                                              status=None, exc=None)
            elif k == 'emit_ret':
                self.emits[(e[3], e[4])].ret = seq
            elif k == 'emit_done':
                m = self.emits[(e[3], e[4])]
                m.done = seq
                m.done_t = t
                m.status = e[5]
                m.exc = e[6] if len(e) > 6 else None
            elif k == 'bg_exc':
                self.bg.append(e)
            elif k == 'task_exc' and e[4] != 'injected':
                self.bg.append(e)
        self.end_seq = len(self.ev)

    # ------------------------------------------------------------------
    def slice_ended(self, nid, before_seq):
        n = self.spec[nid]
        if n['op'] != 'slice' or n.get('end') is None:
            return False
        cnt = sum(1 for i in self.ins[nid] if i.seq < before_seq)
        return cnt >= n['end']

    # ---- synchronous node contracts (C01 / C10) -------------------------
    def check_sync_nodes(self, only_ops=None):
        V = []
        for nid in self.order:
            n = self.spec[nid]
            if n['op'] in ('source', 'sink', 'external') or is_async_node(n):
                continue
            if only_ops is not None and n['op'] not in only_ops:
                continue
            model = make_model(n)
            items = [(i.seq, i) for i in self.ins[nid]] + [(f.seq, f) for f in self.flushes[nid]]
            items.sort(key=lambda p: p[0])
            for o in self.outs[nid]:
                if o.cause is None:
                    V.append(Violation('C01', 'C01.node_contract', o.seq,
                                       'node %d (%s) emitted %r outside any update' % (nid, n['op'], o.value)))
            for _, it in items:
                if it.kind == 'flush':
                    expected = model.flush()
                else:
                    if it.own_fail:
                        continue
                    try:
                        expected = model.push(it.parent, it.value, it.md)
                    except Exception as e:     # noqa - input the model cannot type
                        V.append(Violation('C01', 'C01.node_contract', it.seq,
                                           'node %d (%s): model rejected input %r: %r' % (nid, n['op'], it.value, e)))
                        break
                actual = [(o.value, o.md) for o in it.outs]
                if it.exc:
                    ok_v = [a[0] for a in actual] == [x[0] for x in expected[:len(actual)]]
                    ok_m = [a[1] for a in actual] == [tuple(x[1]) for x in expected[:len(actual)]]
                else:
                    ok_v = [a[0] for a in actual] == [x[0] for x in expected]
                    ok_m = [tuple(a[1]) for a in actual] == [tuple(x[1]) for x in expected]
                if not ok_v:
                    V.append(Violation('C01', 'C01.node_contract', it.ret if it.ret is not None else it.seq,
                                       'node %d (%s) on input #%s %r emitted %r, list-level meaning gives %r'
                                       % (nid, n['op'], it.get('idx'), it.get('value'), [a[0] for a in actual],
                                          [x[0] for x in expected])))
                    break
                if not ok_m:
                    V.append(Violation('C10', 'C10.content', it.ret if it.ret is not None else it.seq,
                                       'node %d (%s) input #%s: metadata %r, expected %r'
                                       % (nid, n['op'], it.get('idx'), [a[1] for a in actual],
                                          [tuple(x[1]) for x in expected])))
                    break
        return V

    def check_collect_consistency(self):
        """Whatever a collector does with its cache when a consumer of a flushed batch raised (keep it and hand
        the elements on again, or drop the batch - the statement fixes neither): every batch it emits carries the
        metadata of exactly its own members.  The members of a batch are a run of consecutive arrivals; the
        metadata must be that run's."""
        V = []
        for nid in self.order:
            n = self.spec[nid]
            if n['op'] != 'collect' or n.get('cache_maxlen') or n.get('md_cache_maxlen'):
                continue
            ins = [i for i in self.ins[nid] if not getattr(i, 'own_fail', False)]
            vals = [i.value for i in ins]
            for o in self.outs[nid]:
                if not isinstance(o.value, tuple):
                    continue
                k = len(o.value)
                runs = [a for a in range(0, len(vals) - k + 1) if tuple(vals[a:a + k]) == o.value and (k == 0 or ins[a + k - 1].seq < o.seq)]
                if not runs:
                    continue
                want = [tuple(m for i in ins[a:a + k] for m in i.md) for a in runs]
                if tuple(o.md) not in want:
                    V.append(Violation('C10', 'C10.content', o.seq,
                                       'collect %d emitted the batch %r with metadata %r; its members arrived with %r'
                                       % (nid, o.value, tuple(o.md), want[-1]), node_op='collect'))
                    return V
        return V

    def check_md_shape(self):
        V = []
        for nid in self.order:
            for i in self.ins[nid]:
                for m in i.md:
                    if m[0] in ('?', '!'):
                        V.append(Violation('C10', 'C10.shape', i.seq,
                                           'node %d received metadata that is not a flat list of dicts: %r' % (nid, i.md)))
                        return V
        return V

    # ---- edge contract (C01 delivery / order, C10 metadata) ---------------
    def check_edges(self):
        V = []
        for nid in self.order:
            kids_static = self.children.get(nid, [])
            for o in self.outs[nid]:
                if o.ret is None:
                    continue
                got = o.kids
                exp = [c for c in kids_static]
                gi = 0
                truncated = False
                for c in exp:
                    optional = self.slice_ended(c, o.seq)
                    if gi < len(got) and got[gi].node == c:
                        g = got[gi]
                        gi += 1
                        if g.value != o.value:
                            V.append(Violation('C01', 'C01.edge_delivery', g.seq,
                                               'node %d emitted %r but child %d received %r' % (nid, o.value, c, g.value)))
                            return V
                        if tuple(g.md) != tuple(o.md):
                            V.append(Violation('C10', 'C10.content', g.seq,
                                               'node %d emitted metadata %r but child %d received %r' % (nid, o.md, c, g.md)))
                            return V
                        if g.exc:
                            truncated = True
                            break
                    elif optional:
                        continue
                    else:
                        later = [g.node for g in got[gi:]]
                        if c in later:
                            V.append(Violation('C01', 'C01.sibling_order', o.seq,
                                               'node %d: children received %r, attach order is %r'
                                               % (nid, [g.node for g in got], exp)))
                        else:
                            V.append(Violation('C01', 'C01.edge_delivery', o.seq,
                                               'node %d emitted %r: attached child %d did not receive it (got %r)'
                                               % (nid, o.value, c, [g.node for g in got])))
                        return V
                if not truncated and gi < len(got):
                    V.append(Violation('C01', 'C01.edge_delivery', got[gi].seq,
                                       'node %d emitted %r once; child %d received it more than once / unexpectedly'
                                       % (nid, o.value, got[gi].node)))
                    return V
        # every arrival must come from an emission of its parent
        for i in self.orphans:
            V.append(Violation('C01', 'C01.edge_delivery', i.seq,
                               'node %d received %r which its upstream %d did not emit at that moment' % (i.node, i.value, i.parent)))
            return V
        return V

    # ---- sinks: the function is applied once per arrival -----------------
    def check_sinks(self):
        V = []
        for nid in self.order:
            if self.spec[nid]['op'] != 'sink':
                continue
            calls = [a for a in self.acts if a.node == nid]
            iv = [i.value for i in self.ins[nid]]
            cv = [a.value for a in calls]
            if iv != cv:
                V.append(Violation('C01', 'C01.node_contract', self.ins[nid][-1].seq if self.ins[nid] else 0,
                                   'sink %d received %r but its function saw %r' % (nid, iv, cv)))
        return V

    # ---- asynchronous nodes: relational contracts -------------------------
    def _prefix_check(self, nid, exp, prop_fifo, label):
        """outs must be a prefix of exp (list of (value, md)); complete at quiescence"""
        V = []
        outs = self.outs[nid]
        for k, o in enumerate(outs):
            if k >= len(exp):
                V.append(Violation(prop_fifo[0], prop_fifo[1] + '.duplicate' if False else prop_fifo[1], o.seq,
                                   '%s %d emitted %r which no pending arrival accounts for (duplicate or invented)' % (label, nid, o.value)))
                return V
            ev, em, ein = exp[k]
            if o.value != ev:
                # distinguish reordering from corruption
                rest = [x[0] for x in exp[k:]]
                what = 'out of arrival order' if o.value in rest else 'not what arrived'
                V.append(Violation(prop_fifo[0], prop_fifo[1], o.seq,
                                   '%s %d emission #%d is %r, expected %r (%s)' % (label, nid, k, o.value, ev, what)))
                return V
            if tuple(o.md) != tuple(em):
                V.append(Violation('C10', 'C10.content', o.seq,
                                   '%s %d emission #%d metadata %r, expected %r' % (label, nid, k, o.md, em)))
                return V
            if ein is not None and o.seq < ein.seq:
                V.append(Violation(prop_fifo[0], prop_fifo[1], o.seq, '%s %d emitted before arrival' % (label, nid)))
                return V
        if self.drained and len(outs) < len(exp):
            # empty tick batches still travelling at the cut are not data
            missing = [x for x in exp[len(outs):] if fns.tokens(x[0]) or x[1]]
            if missing:
                V.append(Violation('C02', 'C02.exactly_once', self.end_seq - 1,
                                   '%s %d: %d arrivals, only %d emitted at quiescence; first missing %r'
                                   % (label, nid, len(exp), len(outs), missing[0][0])))
        return V

    def check_async_nodes(self):
        V = []
        for nid in self.order:
            n = self.spec[nid]
            op = n['op']
            if op in BUFFERING_FIFO:
                exp = [(i.value, i.md, i) for i in self.ins[nid]]
                prop = ('C13', 'C13.order') if op in ('rate_limit', 'delay') else ('C02', 'C02.fifo')
                V += self._prefix_check(nid, exp, prop, op)
            elif op == 'map_async':
                V += self._check_map_async(nid, n)
            elif op == 'timed_window':
                V += self._check_timed_window(nid, n)
            elif op == 'timed_window_unique':
                V += self._check_timed_window(nid, n, unique=True)
            elif op == 'partition' and n.get('timeout') is not None:
                V += self._check_partition_timeout(nid, n)
            elif op == 'latest':
                V += self._check_latest(nid, n)
        return V

    def _check_map_async(self, nid, n):
        """every arrival whose job did not fail is emitted exactly once; emissions keep
        the order in which each producer emitted (elements of different producers that
        nobody ordered may overtake each other while they wait for a work slot)"""
        V = []
        fl = [a.value for a in self.acts if a.node == nid and a.ok is False]
        exp = []
        for i in self.ins[nid]:
            if i.value in fl:
                fl.remove(i.value)
                continue
            exp.append((freeze(fns.f1(tuple(n['fn']), thaw(i.value))), i.md, i))
        unmatched = list(range(len(exp)))
        last_by_pid = {}
        for k, o in enumerate(self.outs[nid]):
            j = None
            for idx in unmatched:
                if exp[idx][0] == o.value and exp[idx][2].seq < o.seq:
                    j = idx
                    break
            if j is None:
                V.append(Violation('C02', 'C02.exactly_once', o.seq,
                                   'map_async %d emitted %r which no pending arrival accounts for (duplicate or invented)' % (nid, o.value)))
                return V
            unmatched.remove(j)
            if tuple(o.md) != tuple(exp[j][1]):
                V.append(Violation('C10', 'C10.content', o.seq,
                                   'map_async %d emission #%d metadata %r, expected %r' % (nid, k, o.md, exp[j][1])))
                return V
            pids = set((t - fns.TOKEN_BASE) // 1000 for t in fns.tokens(o.value))
            for pid in pids:
                if last_by_pid.get(pid, -1) > j:
                    V.append(Violation('C02', 'C02.async_order', o.seq,
                                       'map_async %d emitted %r (arrival #%d) after arrival #%d of the same producer %d'
                                       % (nid, o.value, j, last_by_pid[pid], pid)))
                    return V
                last_by_pid[pid] = j
        if self.drained:
            missing = [exp[j] for j in unmatched if fns.tokens(exp[j][0]) or exp[j][1]]
            if missing:
                V.append(Violation('C02', 'C02.exactly_once', self.end_seq - 1,
                                   'map_async %d: %d arrivals were never emitted, first %r' % (nid, len(missing), missing[0][0])))
        return V

    def _key(self, n, x, default_identity=True):
        k = n.get('key')
        if k is None:
            return x if default_identity else None
        if k[0] == 'index':
            return freeze(thaw(x)[k[1]])
        return freeze(fns.f1(tuple(k), thaw(x)))

    def _check_timed_window(self, nid, n, unique=False):
        V = []
        ins = self.ins[nid]
        outs = self.outs[nid]
        p = 0
        for k, o in enumerate(outs):
            batch = []
            while p < len(ins) and ins[p].seq < o.seq:
                batch.append(ins[p])
                p += 1
            if unique:
                keep = n.get('keep', 'first')
                d = {}
                for i in batch:
                    y = self._key(n, i.value)
                    if keep == 'last':
                        d.pop(y, None)
                        d[y] = i
                    elif y not in d:
                        d[y] = i
                batch = list(d.values())
                ev = tuple(i.value for i in batch)
                ov = o.value
            else:
                ev = ('L',) + tuple(i.value for i in batch)
                ov = o.value
            em = tuple(m for i in batch for m in i.md)
            if ov != ev:
                got = set(map(repr, ov)) if isinstance(ov, tuple) else set()
                V.append(Violation('C08', 'C08.conservation', o.seq,
                                   '%s %d batch #%d is %r; arrivals since the previous batch are %r'
                                   % (n['op'], nid, k, ov, ev)))
                return V
            if tuple(o.md) != em:
                V.append(Violation('C10', 'C10.content', o.seq,
                                   '%s %d batch #%d metadata %r, expected %r' % (n['op'], nid, k, o.md, em)))
                return V
        left = [i for i in ins[p:] if fns.tokens(i.value) or i.md]
        if self.drained and left:
            V.append(Violation('C08', 'C08.conservation', self.end_seq - 1,
                               '%s %d: %d arrivals were never emitted, first %r' % (n['op'], nid, len(left), left[0].value)))
        # deadline: consecutive ticks are one interval apart plus the time the node waited for downstream
        if not self.stalled and self.direct_consumers_only(nid):
            interval = n['interval']
            import bisect
            aseq = [a.seq for a in self.acts]
            for k in range(len(outs) - 1):
                o, o2 = outs[k], outs[k + 1]
                fin = o.t
                lo = bisect.bisect_right(aseq, o.seq)
                hi = bisect.bisect_left(aseq, o.ret or o.seq)
                for a in self.acts[lo:hi]:
                    if a.kind != 'sink':
                        continue
                    if a.end_t is not None:
                        fin = max(fin, a.end_t)
                    else:
                        fin = None
                        break
                if fin is None:
                    break
                if o2.t > fin + interval + 1e-9:
                    V.append(Violation('C08', 'C08.deadline', o2.seq,
                                       '%s %d: batch #%d at t=%g, previous at t=%g finished downstream at t=%g, interval %g'
                                       % (n['op'], nid, k + 1, o2.t, o.t, fin, interval)))
                    return V
        return V

    def direct_consumers_only(self, nid):
        """the cone below nid holds only synchronous one-shot nodes and sinks"""
        seen = set()
        todo = list(self.children.get(nid, []))
        while todo:
            c = todo.pop()
            if c in seen:
                continue
            seen.add(c)
            sp = self.spec[c]
            if is_async_node(sp) or sp['op'] == 'zip':     # zip blocks a full input
                return False
            todo.extend(self.children.get(c, []))
        return True

    def _check_partition_timeout(self, nid, n):
        V = []
        size = n['n']
        timeout = n['timeout']
        open_ = {}            # key -> list of ins
        merged = sorted([(i.seq, 0, i) for i in self.ins[nid]] + [(o.seq, 1, o) for o in self.outs[nid]],
                        key=lambda p: p[0])
        for _, kind, r in merged:
            if kind == 0:
                open_.setdefault(self._key(n, r.value, default_identity=False), []).append(r)
                continue
            o = r
            if len(o.value) == 0:
                V.append(Violation('C08', 'C08.spurious_flush', o.seq, 'partition %d emitted an empty partition at t=%g' % (nid, o.t)))
                return V
            if len(o.value) > size:
                V.append(Violation('C08', 'C08.size', o.seq, 'partition %d emitted %d elements, n=%d' % (nid, len(o.value), size)))
                return V
            key = self._key(n, o.value[0], default_identity=False)
            chunk = open_.get(key, [])
            take = chunk[:len(o.value)]
            if tuple(i.value for i in take) != tuple(o.value):
                V.append(Violation('C08', 'C08.conservation', o.seq,
                                   'partition %d emitted %r; pending arrivals for that key are %r'
                                   % (nid, o.value, tuple(i.value for i in chunk))))
                return V
            em = tuple(m for i in take for m in i.md)
            if tuple(o.md) != em:
                V.append(Violation('C10', 'C10.content', o.seq, 'partition %d metadata %r, expected %r' % (nid, o.md, em)))
                return V
            if len(take) < len(chunk) and len(o.value) < size:
                V.append(Violation('C08', 'C08.conservation', o.seq,
                                   'partition %d flushed %r but %d more arrivals of the key were pending'
                                   % (nid, o.value, len(chunk) - len(take))))
                return V
            del chunk[:len(take)]
            if len(o.value) < size and not self.stalled:
                t0 = take[0].t
                if o.t < t0 + timeout - 1e-9:
                    V.append(Violation('C08', 'C08.spurious_flush', o.seq,
                                       'partition %d flushed the partial partition %r at t=%g, %g s after its first element (timeout %g): a stale timer'
                                       % (nid, o.value, o.t, o.t - t0, timeout)))
                    return V
                if o.t > t0 + timeout + 1e-9:
                    V.append(Violation('C08', 'C08.deadline', o.seq,
                                       'partition %d flushed %r at t=%g, first element arrived t=%g, timeout %g'
                                       % (nid, o.value, o.t, t0, timeout)))
                    return V
        if self.drained:
            left = [i for c in open_.values() for i in c if fns.tokens(i.value) or i.md]
            if left:
                V.append(Violation('C08', 'C08.deadline', self.end_seq - 1,
                                   'partition %d with timeout %g still holds %r at quiescence'
                                   % (nid, timeout, [i.value for i in left])))
        return V

    def _check_latest(self, nid, n):
        V = []
        ins = self.ins[nid]
        outs = self.outs[nid]
        last_idx = -1
        import bisect
        inseq = [i.seq for i in ins]
        by_val = defaultdict(list)
        for j, i in enumerate(ins):
            by_val[i.value].append(j)
        for o in outs:
            # candidates: the most recent arrival of that value before this emission
            idx = None
            hi = bisect.bisect_left(inseq, o.seq)
            cands = by_val.get(o.value, [])
            p = bisect.bisect_left(cands, hi)
            if p > 0:
                idx = cands[p - 1]
            if idx is None:
                V.append(Violation('C14', 'C14.not_subsequence', o.seq, 'latest %d delivered %r which never arrived' % (nid, o.value)))
                return V
            if idx == last_idx:
                V.append(Violation('C14', 'C14.duplicate', o.seq, 'latest %d delivered %r twice' % (nid, o.value)))
                return V
            if idx < last_idx:
                V.append(Violation('C14', 'C14.not_subsequence', o.seq,
                                   'latest %d delivered arrival #%d after arrival #%d' % (nid, idx, last_idx)))
                return V
            if tuple(o.md) != tuple(ins[idx].md):
                V.append(Violation('C10', 'C10.content', o.seq, 'latest %d metadata %r, expected %r' % (nid, o.md, ins[idx].md)))
                return V
            last_idx = idx
        if self.drained and ins and last_idx != len(ins) - 1:
            V.append(Violation('C14', 'C14.newest_missing', self.end_seq - 1,
                               'latest %d: input stopped and the consumer is free, newest element %r (arrival #%d) was not delivered; last delivered arrival #%d'
                               % (nid, ins[-1].value, len(ins) - 1, last_idx)))
        return V

    # ---- C13: rate_limit spacing ----------------------------------------
    def check_rate_limit(self):
        V = []
        for nid in self.order:
            n = self.spec[nid]
            if n['op'] != 'rate_limit':
                continue
            interval = n['interval']
            outs = self.outs[nid]
            ins = self.ins[nid]
            for k in range(1, len(outs)):
                if outs[k].t - outs[k - 1].t < interval - 1e-9:
                    V.append(Violation('C13', 'C13.spacing', outs[k].seq,
                                       'rate_limit %d (interval %g) delivered %r at t=%g and %r at t=%g'
                                       % (nid, interval, outs[k - 1].value, outs[k - 1].t, outs[k].value, outs[k].t)))
                    return V
            if not self.stalled:
                for k, i in enumerate(ins):
                    if k >= len(outs):
                        break
                    idle = (k == 0) or (outs[k - 1].t <= i.t - interval and outs[k - 1].seq < i.seq)
                    if idle and outs[k].t > i.t + 1e-9:
                        V.append(Violation('C13', 'C13.needless_delay', outs[k].seq,
                                           'rate_limit %d idle for >= interval, %r arrived t=%g but was delivered t=%g'
                                           % (nid, i.value, i.t, outs[k].t)))
                        return V
        return V

    # ---- C02 / C03: exceptions nobody raised -----------------------------
    def check_spurious_exceptions(self, prop='C02'):
        V = []
        if self.injected:
            return V
        for key, m in sorted(self.emits.items()):
            if m.status == 'exc':
                V.append(Violation(prop, 'C02.spurious_exception' if prop == 'C02' else 'C03.blocking_emit_exception', m.done,
                                   'emit #%d of producer %d raised %r although no user function raised' % (m.k, m.pid, m.exc)))
                return V
        for e in self.ev:
            if e[2] == 'restart_exc':
                V.append(Violation(prop, 'C02.spurious_exception' if prop == 'C02' else 'C03.blocking_emit_exception', e[0],
                                   'start()/stop() called on node %d of a running pipeline raised %r' % (e[3], e[4])))
                return V
        for e in self.bg:
            V.append(Violation(prop, 'C02.spurious_exception' if prop == 'C02' else 'C03.blocking_emit_exception', e[0],
                               'an exception nobody raised surfaced inside the pipeline: %r' % (e[3:],)))
            return V
        return V

    # ---- C03 ----------------------------------------------------------
    def check_early_completion(self):
        V = []
        by_root = defaultdict(list)
        for a in self.acts:
            if a.kind == 'sink' and a.root is not None:
                by_root[tuple(a.root)].append(a)
        for key, m in sorted(self.emits.items()):
            if m.status != 'ok' or not self.emits_wait(m.entry):
                continue
            for a in by_root.get(key, []):
                if not self.emits_wait(a.node):
                    # reached through a forwarding sink into a pipeline without a loop: that emit cannot wait
                    continue
                if a.seq < m.done and (a.end is None or a.end > m.done):
                    V.append(Violation('C03', 'C03.early_completion', m.done,
                                       'emit #%d of producer %d completed at t=%g while sink %d was still handling %r (finished %s)'
                                       % (m.k, m.pid, m.done_t, a.node, a.value,
                                          'never' if a.end is None else 't=%g' % a.end_t)))
                    return V
        return V

    def check_stuck(self):
        V = []
        if not any(self.emits_wait(m.entry) for m in self.emits.values()):
            return V
        if not self.quiescent:
            if self.res.status in ('deadlock', 'livelock'):
                pend = [m for m in self.emits.values() if m.done is None]
                # everything blocked forever while consumers are all complete
                if pend and all(a.end is not None for a in self.acts):
                    if not self._legit_blocked(pend):
                        m = pend[0]
                        V.append(Violation('C03', 'C03.stuck_emit', self.end_seq - 1,
                                           'loop %s: emit #%d of producer %d never completes although every consumer finished'
                                           % (self.res.status, m.k, m.pid)))
            return V
        pend = sorted((m for m in self.emits.values() if m.done is None), key=lambda m: m.call)
        if pend and all(a.end is not None for a in self.acts) and not self._legit_blocked(pend):
            m = pend[0]
            V.append(Violation('C03', 'C03.stuck_emit', self.end_seq - 1,
                               'at quiescence emit #%d of producer %d (value %r) is still pending although every consumer finished'
                               % (m.k, m.pid, m.value)))
        return V

    def _legit_blocked(self, pend):
        """a zip input that is full while its partners have nothing is allowed to block"""
        for nid in self.order:
            n = self.spec[nid]
            if n['op'] != 'zip':
                continue
            m = make_model(n)
            for i in self.ins[nid]:
                try:
                    m.push(i.parent, i.value, i.md)
                except Exception:
                    return True
            maxsize = n.get('maxsize', 10)
            if any(m.backlog(u) > maxsize for u in m.ups):
                return True
        return False

    def component_of(self, nid):
        """nodes connected to nid (streamz binds loops per connected pipeline)"""
        adj = defaultdict(set)
        for n in self.sc['graph']:
            if n['op'] == 'slice' and n.get('end') == 0:
                continue            # slice(end=0) detaches itself from its parent as soon as it is built
            for u in n.get('up', []):
                adj[u].add(n['id'])
                adj[n['id']].add(u)
        seen, todo = set(), [nid]
        while todo:
            x = todo.pop()
            if x in seen:
                continue
            seen.add(x)
            todo.extend(adj[x])
        return seen

    def emits_wait(self, entry=None):
        """do emits at this entry point wait for downstream at all (its pipeline has a loop)?"""
        mode = self.sc.get('mode')
        if mode == 'loopless':
            return False
        if mode == 'threaded':
            from .build import needs_loop
            nodes = [n for n in self.sc['graph'] if n['op'] != 'sink']
            if entry is not None:
                comp = self.component_of(entry)
                nodes = [n for n in nodes if n['id'] in comp]
            return needs_loop(nodes)
        return True

    def serial_input(self, nid):
        """True if everything reaching nid comes from one awaiting producer through
        one-in/at-most-one-out synchronous nodes (so the documented bound applies)."""
        one = {'map', 'filter', 'starmap', 'pluck', 'unique', 'accumulate', 'slice', 'source'}
        n = self.spec[nid]
        cur = n
        while True:
            ups = cur.get('up', [])
            if cur['op'] == 'source':
                ps = [p for p in self.sc['producers'] if p['entry'] == cur['id']]
                if any(m.get('kind') == 'emit_into' and m.get('target') == cur['id'] for m in self.sc['graph']):
                    return False
                return len(ps) == 1 and ps[0].get('await', True) and self.emits_wait(cur['id'])
            if len(ups) != 1:
                return False
            cur = self.spec[ups[0]]
            if cur['op'] not in one:
                return False

    def check_consumers_ran(self, prop='C02'):
        """A consumer written as a native coroutine only processes its element when somebody awaits (or
        schedules) the coroutine object it returned: a node that drops the awaitables handed back by its
        consumers silently loses the element.  Judged when the run has gone quiet, for consumers in a pipeline
        that has a loop (a loop-less pipeline cannot run coroutines at all)."""
        V = []
        if not self.quiescent:
            return V
        qseq = max(e[0] for e in self.ev if e[2] == 'quiescent')
        for a in getattr(self.res.ctx, 'activities', []):
            if a.kind != 'sink' or a.ran or a.done or a.start_seq > qseq:
                continue        # (a ticking node may call a consumer again right before the run is cut)
            n = self.spec.get(a.node)
            if n is None or n.get('kind') != 'native' or not self.emits_wait(a.node):
                continue
            V.append(Violation(prop, '%s.consumer_never_ran' % prop, a.start_seq,
                               'sink %d (native coroutine) was called with an element (its call #%d) but the coroutine it returned was '
                               'never awaited or scheduled: the element was never processed' % (a.node, a.call),
                               node_op='sink', kind='native'))
            return V
        return V

    def check_handoff(self):
        """Nodes that forward one element at a time (the worker of map_async, the drain loops of buffer / delay /
        latest / timed_window) wait for their consumers before they take the next element: that wait is what
        carries backpressure through the node and what bounds the data in flight below it."""
        from .build import SERIAL_OPS
        V = []
        if getattr(getattr(self.res, 'rec', None), 'overloaded', False):
            return V
        acc_all = self.res.ctx.accepted
        for nid in self.order:
            if self.spec[nid]['op'] not in SERIAL_OPS:
                continue
            outs = self.outs[nid]
            for k in range(len(outs) - 1):
                o, o2 = outs[k], outs[k + 1]
                for kid in o.kids:
                    if getattr(kid, 'retkind', None) != 'aw':
                        continue
                    a = acc_all.get(kid.node, {}).get(kid.idx)
                    if a is None or a > o2.seq:
                        V.append(Violation('C03', 'C03.handoff', o2.seq,
                                           '%s %d handed on %r at t=%g while its consumer %d had not finished accepting the previous element %r (handed on at t=%g)'
                                           % (self.spec[nid]['op'], nid, o2.value, o2.t, kid.node, o.value, o.t),
                                           node_op=self.spec[nid]['op']))
                        return V
        return V

    def check_bounds(self):
        """accepted (the awaitable handed back by update is done) minus handed on"""
        V = []
        ctx = self.res.ctx
        # map_async(parallelism=n) evaluates at most n+1 elements at once (n queued jobs plus the one
        # the worker is waiting for - what the unedited test_map_async pins), whatever the arrivals
        for nid in self.order:
            n = self.spec[nid]
            if n['op'] != 'map_async':
                continue
            lim = n.get('parallelism', 1) + 1
            evs = []
            for a in self.acts:
                if a.node == nid:
                    evs.append((a.seq, +1))
                    if a.end is not None:
                        evs.append((a.end, -1))
            evs.sort()
            cur = 0
            for sq, d in evs:
                cur += d
                if cur > lim:
                    V.append(Violation('C03', 'C03.bound', sq,
                                       'map_async %d (parallelism %d) is evaluating %d elements at once, the bound is %d'
                                       % (nid, lim - 1, cur, lim), node_op='map_async'))
                    return V
        if getattr(getattr(self.res, 'rec', None), 'overloaded', False):
            return V
        for nid in self.order:
            n = self.spec[nid]
            op = n['op']
            if op == 'buffer':
                bound = n['n'] + 1
            elif op == 'map_async':
                bound = n.get('parallelism', 1) + 1
            elif op == 'zip':
                bound = n.get('maxsize', 10)
            else:
                continue
            if op == 'zip' and not self.injected:
                # whoever feeds the input: an arrival that finds the input's buffer already at its bound is held back
                # until the next tuple has left (with several producers on one input nothing bounds the buffer - each
                # tuple wakes them all - but none of their emits completes before a tuple was emitted)
                acc_ = ctx.accepted.get(nid, {})
                out_seqs = [o.seq for o in self.outs[nid]]
                for u in n['up']:
                    mine = [i for i in self.ins[nid] if i.parent == u]
                    for k_, i in enumerate(mine):
                        occupancy = k_ - sum(1 for q in out_seqs if q < i.seq)
                        a_ = acc_.get(i.idx)
                        if occupancy >= bound and a_ is not None:
                            nxt = [q for q in out_seqs if q > i.seq]
                            if not nxt or a_ < nxt[0]:
                                V.append(Violation('C03', 'C03.bound', a_,
                                                   'zip %d (maxsize %d): input %d already held %d elements when %r arrived, yet the emit '
                                                   'that brought it completed before any tuple had left' % (nid, bound, u, occupancy, i.value)))
                                return V
            if op == 'zip':
                ports = [u for u in n['up'] if self.serial_input_port(nid, u)]
                if not ports:
                    continue
            elif not self.serial_input(nid):
                continue
            # acceptance times: we poll "done" lazily - the recorder stored when each
            # awaitable was first seen done (event index)
            acc = ctx.accepted.get(nid, {})
            ins = self.ins[nid]
            outs = self.outs[nid]
            failed = sorted(a.end for a in self.acts if a.node == nid and a.ok is False and a.end is not None)
            events = []
            for i in ins:
                s = acc.get(i.idx)
                if s is not None:
                    events.append((s, 1, +1, i))
            if op == 'zip':
                for u in ports:
                    evs = [(acc[i.idx], 1, +1, i) for i in ins if i.parent == u and acc.get(i.idx) is not None]
                    evs += [(o.seq, 0, -1, o) for o in outs]
                    evs.sort(key=lambda p: (p[0], p[1]))
                    cur = 0
                    for s, _, d, r in evs:
                        cur += d
                        if cur > bound:
                            V.append(Violation('C03', 'C03.bound', s,
                                               'zip %d (maxsize %d): %d elements of input %d accepted and not yet consumed'
                                               % (nid, bound, cur, u)))
                            return V
                continue
            for o in outs:
                events.append((o.seq, 0, -1, o))
            for s in failed:
                events.append((s, 0, -1, None))
            events.sort(key=lambda p: (p[0], p[1]))
            cur = 0
            for s, _, d, r in events:
                cur += d
                if cur > bound:
                    V.append(Violation('C03', 'C03.bound', s,
                                       '%s %d: %d elements accepted and not yet handed on, documented bound %d (+1 in the forwarder\'s hands)'
                                       % (op, nid, cur, bound - 1)))
                    return V
        return V

    def serial_input_port(self, nid, u):
        one = {'map', 'filter', 'starmap', 'pluck', 'unique', 'accumulate', 'slice', 'source'}
        cur = self.spec[u]
        while True:
            if cur['op'] not in one:
                return False
            if cur['op'] == 'source':
                ps = [p for p in self.sc['producers'] if p['entry'] == cur['id']]
                if any(m.get('kind') == 'emit_into' and m.get('target') == cur['id'] for m in self.sc['graph']):
                    return False
                if not (len(ps) == 1 and ps[0].get('await', True) and self.emits_wait(cur['id'])):
                    return False
                # the source must feed this zip through this port only
                return True
            ups = cur.get('up', [])
            if len(ups) != 1:
                return False
            cur = self.spec[ups[0]]

    # ---- C04 / C05 -------------------------------------------------------
    def refcount_scan(self, want_c04=True, want_c05=True):
        V = []
        ms = {}
        for nid in self.order:
            n = self.spec[nid]
            if n['op'] in ('source', 'sink', 'external'):
                continue
            if not is_async_node(n):
                ms[nid] = make_model(n)
        inside = defaultdict(lambda: defaultdict(int))    # async node -> md id -> count
        latest_hold = {}
        twu = {}
        open_outs = []
        seen_kids = {}
        open_ins = []
        open_acts = {}
        failed_elems = set()
        sched_at = {}
        count = {}
        ever_pos = set()
        hit_zero = set()
        sched = defaultdict(int)
        retained_ever = set()
        c04_done = c05_done = False
        ins_by_seq = {i.seq: i for L in self.ins.values() for i in L}
        outs_by_seq = {o.seq: o for L in self.outs.values() for o in L}
        flush_by_seq = {f.seq: f for L in self.flushes.values() for f in L}
        acts_by_seq = {a.seq: a for a in self.acts}

        def holders_of(elem):
            h = []
            for nid, m in ms.items():
                c = sum(1 for x in m.holders() if x[0] == elem and x[1] == 0)
                if c:
                    h.append(('node', nid, c))
            for nid, d in inside.items():
                c = sum(v for k, v in d.items() if k[0] == elem and k[1] == 0)
                if c:
                    h.append(('async', nid, c))
            for nid, md in latest_hold.items():
                c = sum(1 for x in md if x[0] == elem and x[1] == 0)
                if c:
                    h.append(('latest', nid, c))
            for nid, d in twu.items():
                c = sum(1 for md in d.values() for x in md if x[0] == elem and x[1] == 0)
                if c:
                    h.append(('window', nid, c))
            return h

        def blocked_elems():
            out = set()
            for nid, idx in self.res.pending_aw:
                if idx < len(self.ins[nid]):
                    for m in self.ins[nid][idx].md:
                        out.add(m[0])
            return out

        # elements that reached at least one node together with their reference counter (an element nobody ever
        # retained has left the pipeline too, and is owed its callback like any other)
        delivered = set(m[0] for L in self.ins.values() for i in L for m in i.md if m[1] == 0)

        def balance(at_seq, what):
            blocked = blocked_elems() if what == 'at quiescence' else ()
            for elem in sorted(count):
                if elem in failed_elems or elem in blocked:
                    continue
                h = holders_of(elem)
                exp = sum(c for _, _, c in h)
                busy = any(any(x[0] == elem for x in a.md) for a in open_acts.values())
                if busy:
                    continue
                if count[elem] != exp:
                    return Violation('C05', 'C05.balance', at_seq,
                                     '%s: element %d has reference count %d but %d legitimate holders %r'
                                     % (what, elem, count[elem], exp, h))
                if count[elem] == 0 and sched[elem] == 0 and (elem in retained_ever or elem in delivered):
                    return Violation('C05', 'C05.no_callback_at_zero', at_seq,
                                     '%s: element %d has left the pipeline (count 0) but its completion callback was never triggered' % (what, elem))
            return None

        for e in self.ev:
            seq, k = e[0], e[2]
            if k == 'in':
                i = ins_by_seq[seq]
                open_ins.append(i)
                if i.via is not None:
                    seen_kids[i.via.seq] = seen_kids.get(i.via.seq, 0) + 1
                nid = i.node
                if nid in ms:
                    pass     # pushed at in_ret / in_exc (needs own_fail), see below
                else:
                    op = self.spec[nid]['op']
                    if op == 'latest':
                        latest_hold[nid] = i.md
                    elif op == 'timed_window_unique':
                        # a dropped duplicate (keep first) / a replaced member (keep last) is not held
                        d = twu.setdefault(nid, {})
                        y = self._key(self.spec[nid], i.value)
                        if self.spec[nid].get('keep', 'first') == 'last':
                            d.pop(y, None)
                            d[y] = i.md
                        elif y not in d:
                            d[y] = i.md
                    elif op != 'sink':
                        for m in i.md:
                            inside[nid][m] += 1
                # synchronous models advance at the arrival
                if nid in ms and not self._will_own_fail(i):
                    try:
                        ms[nid].push(i.parent, i.value, i.md)
                    except Exception:
                        del ms[nid]
            elif k in ('in_ret', 'in_exc'):
                open_ins.pop()
            elif k == 'flush_call':
                f = flush_by_seq[seq]
                if f.node in ms:
                    ms[f.node].flush()
            elif k == 'out_ret':
                if open_outs:
                    open_outs.pop()
            elif k == 'out':
                o = outs_by_seq[seq]
                open_outs.append(o)
                if o.node in twu:
                    twu[o.node] = {}
                if o.node in inside:
                    d = inside[o.node]
                    for m in o.md:
                        if d.get(m, 0) > 0:
                            d[m] -= 1
            elif k == 'fn_start':
                a = acts_by_seq[seq]
                open_acts[(a.node, a.call)] = a
            elif k == 'fn_end':
                a = open_acts.pop((e[3], e[4]), None)
                if a is not None and e[5] != 'ok':
                    for m in a.md:
                        failed_elems.add(m[0])
                        # ... also when the callback was triggered a moment *before* the failure: during the very
                        # delivery (an emission of this element that is still open) that then raised
                        if want_c04 and not c04_done and m[0] in sched_at:
                            for o in open_outs:
                                if sched_at[m[0]] > o.seq and any(x[0] == m[0] for x in o.md):
                                    V.append(Violation('C04', 'C04.callback_after_failure', seq,
                                                       'completion callback of element %d was triggered while node %d was still delivering it, '
                                                       'and that delivery then raised' % (m[0], o.node)))
                                    c04_done = True
                                    break
                    if self.spec[a.node]['op'] == 'map_async':
                        # the job's element leaves the node without an emission
                        d = inside[a.node]
                        for m in a.md:
                            if d.get(m, 0) > 0:
                                d[m] -= 1
            elif k == 'ref':
                elem, what, n_, cnt = e[3], e[4], e[5], e[6]
                if what == 'new':
                    count.setdefault(elem, 0)
                    continue
                prev = count.get(elem, 0)
                count[elem] = cnt
                if what == 'retain' and n_ > 0:
                    retained_ever.add(elem)
                if want_c05 and not c05_done:
                    if cnt < 0:
                        V.append(Violation('C05', 'C05.negative', seq, 'reference count of element %d became %d' % (elem, cnt)))
                        c05_done = True
                    elif what == 'retain' and n_ > 0 and prev <= 0 and elem in hit_zero:
                        V.append(Violation('C05', 'C05.rise_after_zero', seq,
                                           'reference count of element %d rose to %d after it had returned to zero' % (elem, cnt)))
                        c05_done = True
                if cnt > 0:
                    ever_pos.add(elem)
                if cnt <= 0 and elem in ever_pos:
                    hit_zero.add(elem)
            elif k == 'cb_sched':
                elem = e[3]
                sched[elem] += 1
                sched_at[elem] = seq
                if want_c04 and not c04_done:
                    if elem in failed_elems:
                        V.append(Violation('C04', 'C04.callback_after_failure', seq,
                                           'completion callback triggered for element %d whose processing raised' % elem))
                        c04_done = True
                    else:
                        why = None
                        h = holders_of(elem)
                        if h:
                            why = 'still held by %r' % (h,)
                        else:
                            for a in open_acts.values():
                                if any(x[0] == elem for x in a.md):
                                    why = '%s %d is still handling %r (started t=%g)' % (a.kind, a.node, a.value, a.t)
                                    break
                                # provenance by value: the element itself is inside what the consumer handles although the
                                # metadata delivered with it does not say so (below a one-to-many node metadata legitimately
                                # travels with the last piece only, so this is not applied there)
                                if (not self.below_one_to_many(a.node) or self.serial_below_flatten(a.node)) \
                                        and elem in fns.tokens(a.value):
                                    why = '%s %d is still handling %r, which contains it (the metadata delivered with that value does not name it)' % (
                                        a.kind, a.node, a.value)
                                    break
                        if why is None:
                            for i in open_ins:
                                if any(x[0] == elem for x in i.md):
                                    why = 'update of node %d carrying it is still running' % i.node
                                    break
                        if why is None:
                            # an emission in progress that has not reached all attached branches yet
                            for o in open_outs:
                                if any(x[0] == elem for x in o.md):
                                    kids = [c for c in self.children.get(o.node, []) if not self.slice_ended(c, o.seq)]
                                    if seen_kids.get(o.seq, 0) < len(kids):
                                        why = 'node %d is still delivering it: %d of its %d branches have not received it yet' % (
                                            o.node, len(kids) - seen_kids.get(o.seq, 0), len(kids))
                                        break
                        if why:
                            V.append(Violation('C04', 'C04.early_callback', seq,
                                               'completion callback of element %d triggered at t=%g while it is %s' % (elem, e[1], why)))
                            c04_done = True
            elif k == 'idle' and want_c05 and not c05_done and not open_ins:
                v = balance(seq, 'between emits')
                if v:
                    V.append(v)
                    c05_done = True
            elif k == 'quiescent' and want_c05 and not c05_done and self.drained:
                v = balance(seq, 'at quiescence')
                if v:
                    V.append(v)
                    c05_done = True
        return V

    def serial_below_flatten(self, nid):
        """Is this consumer reached from a flatten node through a straight line of one-to-one nodes that contains
        a node which hands on one element at a time and waits for it (buffer, delay)?  Then the pieces of one
        element are handled strictly one after the other, the last piece - which carries the metadata - last: a
        completion callback cannot legitimately run while an earlier piece is still being handled."""
        cache = self.__dict__.setdefault('_sbf', {})
        if nid in cache:
            return cache[nid]
        res = False
        if not self.sc.get('feedback') and not any(m.get('kind') == 'emit_into' for m in self.sc['graph']):
            serial = False
            cur = self.spec[nid]
            while True:
                ups = cur.get('up', [])
                if len(ups) != 1:
                    break
                par = self.spec[ups[0]]
                if len(self.children.get(par['id'], [])) != 1:
                    break
                if par['op'] == 'flatten':
                    res = serial and not self.below_one_to_many(par['up'][0])
                    break
                if par['op'] in ('buffer', 'delay'):
                    serial = True
                elif par['op'] not in ('map', 'filter', 'pluck'):
                    break
                cur = par
        cache[nid] = res
        return res

    def below_one_to_many(self, nid):
        cache = self.__dict__.setdefault('_b1m', {})
        if nid not in cache:
            cache[nid] = False       # (cycle guard for feedback graphs)
            n = self.spec[nid]
            cache[nid] = n['op'] == 'flatten' or any(self.below_one_to_many(u) for u in n.get('up', []))
            if n['op'] == 'source' and any(m.get('kind') == 'emit_into' and m.get('target') == nid for m in self.sc['graph']):
                cache[nid] = True        # values forwarded by a.sink(b.emit) arrive without their metadata
            if not cache[nid]:
                for fb in self.sc.get('feedback', []):
                    if fb['to'] == nid and self.below_one_to_many(fb['from']):
                        cache[nid] = True
        return cache[nid]

    def _will_own_fail(self, i):
        return i.own_fail


# ---- independent end-to-end reference interpreter (synchronous pipelines) ---

def reference_sinks(sc):
    """Recursive push in attach order over the models; -> {sink id: [values]}"""
    spec = {n['id']: n for n in sc['graph']}
    children = defaultdict(list)
    for n in sc['graph']:
        for u in n.get('up', []):
            if n['id'] not in children[u]:
                children[u].append(n['id'])
    for fb in sc.get('feedback', []):
        children[fb['from']].append(fb['to'])
    ms = {n['id']: make_model(n) for n in sc['graph']}
    got = defaultdict(list)
    slice_cnt = defaultdict(int)

    def deliver(parent, nid, x, md):
        n = spec[nid]
        if n['op'] == 'sink':
            got[nid].append(x)
            if n.get('kind') == 'emit_into':
                emit(n['target'], x, ())
            return
        if n['op'] == 'slice':
            end = n.get('end')
            if end is not None and slice_cnt[nid] >= end:
                return
            slice_cnt[nid] += 1
        for v, m in ms[nid].push(parent, x, md):
            emit(nid, v, m)

    def emit(nid, x, md):
        for c in children.get(nid, []):
            deliver(nid, c, x, md)

    steps = []
    for pid, p in enumerate(sc['producers']):
        t = p.get('start', 0) or 0
        for k, item in enumerate(p['items']):
            t += item.get('gap', 0) or 0
            steps.append((t, pid, k))
    steps.sort()
    for t, pid, k in steps:
        p = sc['producers'][pid]
        item = p['items'][k]
        if 'flush' in item:
            for v, m in ms[item['flush']].flush():
                emit(item['flush'], v, m)
        elif 'restart' in item:
            pass            # (start() on a running pipeline changes nothing)
        else:
            emit(p['entry'], item['v'], ())
    return got


def check_end_to_end(sc, an):
    V = []
    exp = reference_sinks(sc)
    for nid in an.order:
        if an.spec[nid]['op'] != 'sink':
            continue
        got = [a.value for a in an.acts if a.node == nid]
        if got != exp.get(nid, []):
            V.append(Violation('C01', 'C01.end_to_end', an.end_seq - 1,
                               'sink %d observed %r, the dataflow semantics give %r' % (nid, got, exp.get(nid, []))))
            return V
    return V
