"""The pipeline family: properties C01 C02 C03 C04 C05 C08 C10 C13 C14 C16."""
import copy
import random

from . import gen, oracles
from .pipeline import run_scenario
from .oracles import Violation, Analysis


class Outcome:
    def __init__(self):
        self.violations = []
        self.probes = {}
        self.status = 'ok'
        self.sim_time = 0.0
        self.events = 0
        self.signature = ''
        self.faults = {}
        self.nontrivial = False
        self.extra_runs = 0


def _relabel(vs, prop, oracle, keep_prefix):
    out = []
    for v in vs:
        if v.oracle.startswith(keep_prefix):
            out.append(v)
    return out


def evaluate(prop, sc, want_trace=False):
    res = run_scenario(sc)
    an = Analysis(sc, res)
    out = Outcome()
    out.status = res.status
    out.sim_time = res.sim_time
    out.events = len(res.events)
    out.signature = res.signature
    V = []
    if prop == 'C01':
        V += an.check_sync_nodes() + an.check_edges() + an.check_sinks()
        if sc.get('mode') == 'loopless' and not an.injected:
            V += oracles.check_end_to_end(sc, an)
    elif prop == 'C02':
        V += an.check_spurious_exceptions('C02')
        for v in an.check_async_nodes():
            # what the batching / rate limiting nodes deliver is part of "each exactly once, in order"
            if v.oracle == 'C08.conservation':
                v = Violation('C02', 'C02.batch_content', v.seq, v.detail, **v.info)
            elif v.oracle == 'C13.order':
                v = Violation('C02', 'C02.fifo', v.seq, v.detail, **v.info)
            V.append(v)
        # synchronous meaning of every node inside asynchronous pipelines
        for v in an.check_sync_nodes() + an.check_edges() + an.check_sinks():
            if v.prop == 'C01':
                V.append(Violation('C02', 'C02.semantics', v.seq, v.detail, **v.info))
        V += an.check_consumers_ran('C02')
    elif prop == 'C03':
        V += an.check_early_completion() + an.check_bounds() + an.check_handoff() + an.check_stuck()
        V += an.check_spurious_exceptions('C03')
    elif prop == 'C04':
        V += an.refcount_scan(want_c04=True, want_c05=False)
    elif prop == 'C05':
        V += an.refcount_scan(want_c04=False, want_c05=True)
    elif prop == 'C08':
        V += an.check_async_nodes()
    elif prop == 'C10':
        if (sc.get('faults') or {}).get('fail'):
            # with a consumer that raised, only the node right above it is judged: its later outputs still carry
            # the metadata of exactly their members (who else gets what after an exception is C16's subject)
            V += an.check_sync_nodes(only_ops=('sliding_window',)) + an.check_collect_consistency()
        else:
            V += an.check_sync_nodes() + an.check_md_shape() + an.check_edges() + an.check_async_nodes()
    elif prop == 'C13':
        if (sc.get('faults') or {}).get('fail'):
            # a consumer below the rate_limit raised: only the distance between deliveries is judged
            V += an.check_rate_limit()
        else:
            V += an.check_async_nodes() + an.check_rate_limit()
    elif prop == 'C14':
        V += an.check_async_nodes()
    elif prop == 'C16':
        V += check_c16(sc, an)
    out.violations = [v for v in V if v.prop == prop]
    # fault kinds that actually fired in this run (not merely configured)
    nst = sum(1 for e in res.events if e[2] == 'stall')
    nfail = sum(1 for a in an.acts if a.ok is False)
    nsw = sum(1 for e in res.events if e[2] == 'sched')
    if nst:
        out.faults['loop_stall'] = nst
    if nfail:
        out.faults['injected_failure'] = nfail
    if nsw:
        out.faults['seeded_thread_switch'] = nsw
    if res.spin_jumps:
        out.faults['busy_wait_clock_jump'] = res.spin_jumps
    out.probes = probes(prop, sc, an)
    out.nontrivial = bool(out.probes)
    if res.status == 'step_cap':
        out.violations = []
    if want_trace:
        out.res = res
        out.an = an
    return out


def probes(prop, sc, an):
    """Reach counters: situations the property is about that this run got into."""
    P = {}

    def hit(name, n=1):
        if n:
            P[name] = P.get(name, 0) + n

    ops = [n['op'] for n in sc['graph']]
    spec = an.spec
    if prop in ('C01', 'C10', 'C02'):
        for nid, ch in an.children.items():
            if len(ch) >= 2 and an.outs[nid]:
                hit('fanout>=2')
        for n in sc['graph']:
            if len(n.get('up', [])) >= 2 and an.ins[n['id']]:
                hit('fanin')
            if n['op'] in ('partition', 'sliding_window', 'partition_unique') and n.get('n') == 1 and an.ins[n['id']]:
                hit('n=1')
            if n['op'] == 'zip' and n.get('literals') and an.outs[n['id']]:
                hit('zip_literal')
            if n['op'] == 'slice' and (n.get('start') or 0) > 0 and (n.get('step') or 1) > 1 and an.ins[n['id']]:
                hit('slice_start_step')
            if n['op'] == 'combine_latest' and n.get('emit_on') is not None and an.outs[n['id']]:
                hit('emit_on_subset')
            if n.get('key') and n['op'] in ('partition', 'unique', 'partition_unique') and an.ins[n['id']]:
                hit('keyed')
        if len(sc['producers']) > 1:
            hit('several_entry_points')
    if prop in ('C10', 'C04', 'C05'):
        if any(e.md for e in an.emits.values()):
            hit('metadata')
        if any(len(e.md) == 2 for e in an.emits.values()):
            hit('two_dicts')
        if any(not e.md for e in an.emits.values()) and any(e.md for e in an.emits.values()):
            hit('mixed_with_without_metadata')
    if prop in ('C02', 'C03', 'C04', 'C05', 'C08', 'C13', 'C14', 'C10'):
        for n in sc['graph']:
            nid = n['id']
            if oracles.is_async_node(n) and an.ins[nid]:
                hit('async:' + n['op'])
        for a in an.acts:
            if a.kind == 'sink' and spec[a.node].get('kind', 'sync') != 'sync':
                hit('consumer:' + spec[a.node]['kind'])
                break
    if prop == 'C02':
        for n in sc['graph']:
            if n['op'] == 'map_async':
                acts = [a for a in an.acts if a.node == n['id'] and a.end is not None]
                for i in range(len(acts) - 1):
                    if acts[i + 1].end < acts[i].end:
                        hit('job k+1 finished before job k')
                        break
    if prop == 'C03':
        for m in an.emits.values():
            if m.done is not None and m.done_t > m.t:
                hit('producer_blocked')
                break
        if an.res.pending_aw:
            hit('pending_at_end')
        for n in sc['graph']:
            if n['op'] in ('buffer', 'map_async', 'zip') and an.ins[n['id']]:
                ok = an.serial_input(n['id']) if n['op'] != 'zip' else any(an.serial_input_port(n['id'], u) for u in n['up'])
                if ok:
                    hit('bound_checked:' + n['op'])
    if prop in ('C04', 'C05'):
        n_sched = sum(1 for e in an.ev if e[2] == 'cb_sched')
        if n_sched:
            hit('callback_scheduled', n_sched)
        if any(e[2] == 'ref' for e in an.ev):
            hit('refcounted')
    if prop == 'C08':
        for n in sc['graph']:
            nid = n['id']
            if n['op'] in ('timed_window', 'timed_window_unique'):
                outs = an.outs[nid]
                ots = set(o.t for o in outs)
                if any(i.t in ots for i in an.ins[nid]):
                    hit('arrival_exactly_at_tick')
                if any(len(o.value) > (1 if n['op'] == 'timed_window' else 0) for o in outs):
                    hit('nonempty_batch')
            if n['op'] == 'partition' and n.get('timeout') is not None:
                outs = an.outs[nid]
                if any(len(o.value) < n['n'] for o in outs):
                    hit('timeout_flush')
                if any(len(o.value) == n['n'] for o in outs):
                    hit('size_flush')
    if prop == 'C13':
        for n in sc['graph']:
            if n['op'] == 'rate_limit' and len(an.outs[n['id']]) >= 2:
                hit('rate_limit>=2 deliveries')
                ins = an.ins[n['id']]
                if any(ins[i + 1].t - ins[i].t < n['interval'] for i in range(len(ins) - 1)):
                    hit('burst')
            if n['op'] == 'delay' and len(an.outs[n['id']]) >= 2:
                hit('delay>=2 deliveries')
    if prop == 'C14':
        for n in sc['graph']:
            if n['op'] == 'latest':
                ins, outs = an.ins[n['id']], an.outs[n['id']]
                if len(ins) > len(outs) and outs:
                    hit('elements_skipped')
                if ins:
                    hit('latest_fed')
    if prop == 'C16':
        if an.injected:
            hit('failure_injected')
    return P


# ---------------------------------------------------------------------------
# C16: failure propagation, state intact, never checkpointed

def check_c16(sc, an):
    V = []
    fails = (sc.get('faults') or {}).get('fail') or []
    if not fails:
        return V
    failed_acts = [a for a in an.acts if a.ok is False]
    # without a loop emit cannot wait for (or report the failure of) an awaitable
    failed_acts = [a for a in failed_acts
                   if an.spec[a.node]['op'] != 'sink' or an.spec[a.node].get('kind', 'sync') == 'sync'
                   or a.root is None or an.emits.get(tuple(a.root)) is None
                   or (an.emits_wait(an.emits[tuple(a.root)].entry) and an.emits_wait(a.node))]
    # 1. every injected failure that fired reaches the caller of the emit whose extent it is in
    for a in failed_acts:
        root = tuple(a.root) if a.root is not None else None
        if root is None:
            continue
        m = an.emits.get(root)
        if m is None:
            continue
        if m.status is None:
            # the emit never completed (blocked on a full zip input ...): nothing was
            # reported to the caller either way; pending emits are C03's business
            continue
        if m.status != 'exc' or not m.exc or m.exc[0] != 'injected' or (m.exc[1], m.exc[2]) != (a.node, a.call):
            # several failures within one emit: any of them may be the one that surfaces
            same_root = [(b.node, b.call) for b in failed_acts if b.root is not None and tuple(b.root) == root]
            if m.status == 'exc' and m.exc and m.exc[0] == 'injected' and (m.exc[1], m.exc[2]) in same_root:
                continue
            V.append(Violation('C16', 'C16.not_propagated', m.done if m.done is not None else a.end,
                               'user function of node %d raised during emit #%d of producer %d, the emitter got %s'
                               % (a.node, m.k, m.pid, 'no exception' if m.status == 'ok' else
                                  ('nothing (emit never completed)' if m.status is None else repr(m.exc))),
                               node_op=an.spec[a.node]['op'], kind=an.spec[a.node].get('kind')))
            return V
    # 2. state intact: the nodes that run a user function, with the failing element
    #    withdrawn at the node whose function raised.  (What a stateful node *upstream*
    #    of the failure does with the element is not fixed by the statement.)
    #    ... and the nodes that hand on exactly one value per completed input and settle their own state before
    #    they hand it on (zip, combine_latest, the windows and partitions, unique, union): what they offer their
    #    consumers after a failure below them is what their inputs prescribe - in particular not the failed value
    #    a second time.  (slice counts after the hand-over, flatten and zip_latest hand on several values per
    #    input and stop in the middle: what those do around a failure is not fixed by the statement.)
    for v in an.check_sync_nodes(only_ops=('map', 'starmap', 'filter', 'accumulate', 'zip', 'combine_latest', 'sliding_window',
                                           'partition', 'partition_unique', 'unique', 'union')) + an.check_sinks():
        if v.prop == 'C01':
            V.append(Violation('C16', 'C16.state_changed', v.seq, v.detail, **v.info))
            return V
    # 2b. elements that were waiting behind the failing one are processed as if it had not been offered: a
    #     zip_latest that has everything it needs hands on every buffered element of its lossless input at its
    #     next arrival after the failure, not only the newest one
    ends = [a.end for a in an.acts if a.ok is False and a.end is not None]
    last_fail = max(ends) if ends else None
    for nid in an.order:
        n = an.spec[nid]
        if n['op'] != 'zip_latest' or last_fail is None:
            continue
        ups = list(n['up'])
        missing = set(ups)
        owed, waiting = [], []
        for i in an.ins[nid]:
            missing.discard(i.parent)
            if i.parent == ups[0]:
                waiting.append(i)
            if not missing and i.seq > last_fail and i.ret is not None and not i.exc:
                owed.extend(waiting)
                waiting = []
        from collections import Counter
        tried = Counter(o.value[0] for o in an.outs[nid] if isinstance(o.value, tuple) and o.value)
        need = Counter(i.value for i in owed)
        lost = [v for v, c in need.items() if tried.get(v, 0) < c]
        if lost:
            V.append(Violation('C16', 'C16.lost_behind_failure', an.end_seq - 1,
                               'zip_latest %d: %r arrived on its lossless input and waited behind an element whose consumer raised; '
                               'later arrivals were handed on, these never were' % (nid, lost[:3]), node_op='zip_latest'))
            return V
    # 3. never checkpointed
    for v in an.refcount_scan(want_c04=True, want_c05=False):
        if v.oracle == 'C04.callback_after_failure':
            V.append(Violation('C16', 'C16.callback_after_failure', v.seq, v.detail, **v.info))
            return V
    return V


def c16_variants(sc, rng, max_multi=3):
    """Fault enumeration: run fault-free, list the user-function invocations,
    then every single failing invocation, plus a few sampled multi-failure sets."""
    base = run_scenario(sc)
    inv = [(e[3], e[4], e[5]) for e in base.events if e[2] == 'fn_start']
    spec = {n['id']: n for n in sc['graph']}
    out = []
    for node, call, kind in inv:
        whens = ['pre']
        if spec[node]['op'] == 'sink' and spec[node].get('kind', 'sync') in ('native', 'tornado'):
            whens = ['pre', 'post']
        for w in whens:
            s2 = copy.deepcopy(sc)
            s2['faults'] = {'stalls': [], 'fail': [{'node': node, 'call': call, 'when': w}]}
            out.append(s2)
    for _ in range(max_multi):
        if len(inv) >= 2:
            k = rng.randrange(2, min(4, len(inv)) + 1)
            picks = rng.sample(inv, k)
            s2 = copy.deepcopy(sc)
            s2['faults'] = {'stalls': [], 'fail': [{'node': n, 'call': c, 'when': 'pre'} for n, c, _ in picks]}
            out.append(s2)
    return out


# ---------------------------------------------------------------------------

def generate(prop, rng, seed, index, tier):
    sc = gen.generate(rng, prop, seed, index, 'thorough' if tier == 'thorough' else 'quick')
    if prop == 'C01' and not sc.get('feedback'):
        # connect() of a branch that is attached already: no second delivery, and the branch keeps its place
        # among its siblings (the order in which they were attached).  Drawn from a private generator so that
        # the rest of the scenario stream is what it was.
        r2 = random.Random(seed * 1000003 + index)
        if r2.random() < 0.2:
            kids = {}
            for n in sc['graph']:
                if len(n.get('up', [])) == 1 and 'attach_at' not in n:
                    kids.setdefault(n['up'][0], []).append(n)
            edges = [(u, n['id']) for u, L in sorted(kids.items()) if len(L) >= 2
                     for n in L[:-1] if n['op'] in ('map', 'filter', 'sink')]
            if edges:
                sc['reconnect'] = [list(r2.choice(edges))]
    return sc


def expand(prop, sc, rng):
    if prop == 'C16':
        return [sc] + c16_variants(sc, rng)
    return [sc]


LEVEL = {'C16': 'fault_enumeration'}
CHUNK = {'C16': 6, 'C04': 20, 'C05': 20}
COMPONENTS = {
    'real': ['streamz.core (all node classes, Stream._emit/emit, RefCounter, sync)', 'streamz.sinks',
             'tornado.gen / tornado.queues / tornado.locks / tornado IOLoop wrapper',
             'asyncio BaseEventLoop scheduling (_run_once, call_soon, call_at, Task, Future)'],
    'stub': ['selector -> virtual clock (SimLoop)', 'wall clock (streamz.core.time)',
             'user functions (catalogue of pure functions with scripted latency / stall / failure)'],
}
ASSUMPTIONS = {
    'C03': ['bound oracles assume one awaiting producer per entry point feeding the bounded node through one-to-one nodes',
            'map_async bound is parallelism+1 and buffer bound n+1 (one element in the forwarder\'s hands), as the unedited tests require'],
    'C05': ['elements emitted into a node without consumers are exempt from "callback has been triggered"'],
}
RULE = {}


def shrink_candidates(sc):
    """Structural reductions that keep the scenario valid (lazily generated)."""
    def clone():
        return copy.deepcopy(sc)

    graph = sc['graph']
    used = set(u for n in graph for u in n.get('up', []))
    flushed = set(it['flush'] for p in sc['producers'] for it in p['items'] if 'flush' in it)
    entries_used = set(p['entry'] for p in sc['producers'])
    # producers
    if len(sc['producers']) > 1:
        for i in range(len(sc['producers'])):
            c = clone()
            del c['producers'][i]
            yield c
    for pi, p in enumerate(sc['producers']):
        n = len(p['items'])
        if n > 1:
            c = clone()
            c['producers'][pi]['items'] = p['items'][:n // 2]
            yield c
            c = clone()
            c['producers'][pi]['items'] = p['items'][n // 2:]
            yield c
        for k in range(n - 1, -1, -1):
            if n > 1:
                c = clone()
                del c['producers'][pi]['items'][k]
                yield c
    # faults
    f = sc.get('faults') or {}
    for key in ('stalls', 'fail'):
        for i in range(len(f.get(key, []))):
            c = clone()
            del c['faults'][key][i]
            yield c
    # leaf nodes
    for i in range(len(graph) - 1, -1, -1):
        n = graph[i]
        if n['id'] in used or n['id'] in flushed:
            continue
        if n['op'] == 'source' and n['id'] in entries_used:
            continue
        c = clone()
        del c['graph'][i]
        fl = c.get('faults') or {}
        for key in ('stalls', 'fail'):
            fl[key] = [x for x in fl.get(key, []) if x['node'] != n['id']]
        yield c
    # splice out type-preserving one-to-one nodes
    for i, n in enumerate(graph):
        if sc.get('feedback') and n['op'] in ('unique', 'map', 'flatten'):
            continue        # the guard of a feedback cycle stays (the property speaks of guarded feedback edges)
        if n['op'] in ('filter', 'buffer', 'delay', 'rate_limit', 'latest', 'slice', 'unique') or \
                (n['op'] == 'map' and n['fn'][0] == 'ident'):
            c = clone()
            parent = n['up'][0]
            del c['graph'][i]
            ok = True
            for m in c['graph']:
                if n['id'] in m.get('up', []):
                    if parent in m['up']:
                        ok = False
                    m['up'] = [parent if u == n['id'] else u for u in m['up']]
            if ok:
                yield c
    # parameters
    for i, n in enumerate(graph):
        for key in ('lat',):
            if n.get(key) and n[key] != [None]:
                c = clone()
                c['graph'][i][key] = [None]
                yield c
                if len(n[key]) > 1:
                    c = clone()
                    c['graph'][i][key] = [max((x or 0) for x in n[key])]
                    yield c
        for key in ('n', 'maxsize', 'parallelism'):
            if isinstance(n.get(key), int) and n[key] > 1 and n['op'] not in ('partition_unique',):
                c = clone()
                c['graph'][i][key] = n[key] - 1
                yield c
    for pi, p in enumerate(sc['producers']):
        if p.get('start'):
            c = clone()
            c['producers'][pi]['start'] = 0
            yield c
        for k, it in enumerate(p['items']):
            if it.get('gap'):
                c = clone()
                c['producers'][pi]['items'][k]['gap'] = 0
                yield c
            if it.get('md'):
                c = clone()
                c['producers'][pi]['items'][k].pop('md')
                yield c
    if sc.get('tiebreak', 'fifo') != 'fifo':
        c = clone()
        c['tiebreak'] = 'fifo'
        yield c
