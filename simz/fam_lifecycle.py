"""C18 - source lifecycle: one polling loop at a time, nothing new after stop,
redundant start/stop calls have no effect, from_iterable emits exactly its items."""
import copy

from .oracles import Violation
from .srcsim import run_source
from .fam_pipeline import Outcome

LEVEL = {'C18': 'exploration'}
CHUNK = {'C18': 40}
COMPONENTS = {
    'real': ['streamz.sources.Source.start/stop/run, from_iterable, from_periodic, from_textfile, filenames (real code)',
             'streamz.core', 'streamz.sinks', 'tornado + asyncio scheduling'],
    'stub': ['file object / glob (fakes)', 'user callback and iterator (logged)', 'selector/clock -> SimLoop'],
}
ASSUMPTIONS = {'C18': ['a polling cycle begins with the read / listing / callback / next() that the fakes log',
                       'redundant calls are generated (and judged) for sources that never stop by themselves']}
RULE = {'C18': 'histories of start()/stop() calls placed before the scheduled run began, during the sleep, during a '
               'backpressured emit, between items, at the same instant, plus redundant calls; sources: from_iterable '
               '(one-shot iterator and list), from_periodic, from_textfile, filenames with slow sinks. Non-trivial = '
               'at least one stop and a later start, or a redundant call, with data flowing; distinct = schedule signatures'}

TGRID = [0, 0, 0.25, 0.25, 0.5, 0.75, 1, 1.5, 2, 3]


def generate(prop, rng, seed, index, tier):
    big = tier == 'thorough'
    typ = rng.choice(['iterable', 'iterable', 'periodic', 'periodic', 'textfile', 'filenames', 'custom'])
    poll = rng.choice([0.25, 0.5, 1, 2])
    sink = {'kind': rng.choice(['sync', 'native', 'tornado', 'native'])}
    if sink['kind'] != 'sync':
        sink['lat'] = [rng.choice([None, 0, 0.25, 0.5, 1, 2, 3]) for _ in range(rng.randrange(1, 4))]
    src = {'type': typ, 'poll': poll}
    ops = []
    nitems = rng.randrange(1, 9 if big else 7)
    if typ == 'iterable':
        src['items'] = list(range(100, 100 + nitems))
        if rng.random() < 0.25:
            # None (and other falsy values) are items like any other
            for k in range(nitems):
                if rng.random() < 0.3:
                    src['items'][k] = rng.choice([None, None, 0, ''])
        src['one_shot'] = rng.random() < 0.65
        if src['one_shot'] and rng.random() < 0.5:
            src['gen_like'] = True       # (the one-shot iterator has a close() method, as generators do)
    elif typ == 'textfile':
        src['delimiter'] = '\n'
        src['pre'] = ''
        # from_end places the reader once, when the source is created (the file is empty then): start() calls,
        # redundant or not, must not move it again
        src['from_end'] = rng.random() < 0.4
        t = 0.0
        for k in range(nitems):
            t += rng.choice(TGRID)
            ops.append({'t': t, 'op': 'append', 'data': 'r%d\n' % k if rng.random() < 0.8 else 'r%d' % k})
    elif typ == 'filenames':
        src['pre'] = []
        src['order_key'] = {}
        t = 0.0
        for k in range(nitems):
            t += rng.choice(TGRID)
            ops.append({'t': t, 'op': 'create', 'name': '/data/f%02d' % rng.randrange(40)})
    # start/stop history
    t = rng.choice([0, 0, 0.25, 1])
    started = False
    if rng.random() < 0.2:
        # Source(..., start=True): started by its constructor; the history goes on from there (a stop() may
        # follow at once, before the loop has had a turn)
        src['start_true'] = True
        started = True
        t = rng.choice([0, 0, 0, 0.25, 1])
    ncalls = rng.randrange(1, 8 if big else 6)
    for _ in range(ncalls):
        r = rng.random()
        if not started:
            if r < 0.8:
                ops.append({'t': t, 'op': 'start'})
                started = True
            else:
                o = {'t': t, 'op': 'stop'}
                if typ != 'iterable':
                    o['redundant'] = True
                ops.append(o)
        else:
            if r < 0.7:
                ops.append({'t': t, 'op': 'stop'})
                started = False
            else:
                o = {'t': t, 'op': 'start'}
                if typ != 'iterable':
                    o['redundant'] = True
                ops.append(o)
        t += rng.choice(TGRID)
    final_started = started
    if not started and rng.random() < 0.7:
        ops.append({'t': t, 'op': 'start'})
        final_started = True
    if rng.random() < 0.15:
        # a consumer that raises for one element: the polling loop dies of it; the source stays 'started' until
        # it is stopped, and the next effective start() must begin polling again
        sink['fail_at'] = rng.randrange(0, nitems)
    maxlat = max([x or 0 for x in sink.get('lat', [0])] + [0])
    sc = {'format': 1, 'family': 'lifecycle', 'property': 'C18', 'seed': seed, 'index': index, 'source': src,
          'ops': ops, 'sink': sink, 'via_map': False, 'final_started': final_started,
          'tiebreak': rng.choice(['fifo', 'lifo', 'seeded']), 'tiebreak_seed': rng.randrange(1000),
          'drain': (nitems + 4) * (maxlat + poll) + 6}
    return mark_redundant(sc)


def mark_redundant(sc):
    """(re)compute which calls are redundant: start on a started source, stop on
    a stopped one - in execution order; only for sources that never stop by
    themselves."""
    typ = sc['source']['type']
    started = bool(sc['source'].get('start_true'))      # (constructed with start=True)
    for _, o in sorted(enumerate(sc['ops']), key=lambda p: (p[1]['t'], p[0])):
        o.pop('redundant', None)
        if o['op'] == 'start':
            if started and typ != 'iterable':
                o['redundant'] = True
            started = True
        elif o['op'] == 'stop':
            if not started and typ != 'iterable':
                o['redundant'] = True
            started = False
    sc['final_started'] = started
    return sc


def _core(ev):
    """what the outside world can see of a run"""
    return [(e[1], e[2]) + tuple(e[3:]) for e in ev if e[2] in ('cycle', 'sink_start', 'sink_end')]


def evaluate(prop, sc, want_trace=False):
    rec, status = run_source(sc)
    ev = rec.events
    out = Outcome()
    out.status = status
    out.sim_time = ev[-1][1] if ev else 0.0
    out.events = len(ev)
    out.signature = rec.signature()
    V = []
    s = sc['source']
    typ = s['type']
    failing = sc['sink'].get('fail_at') is not None and any(e[2] == 'sink_raised' for e in ev)
    for e in ev:
        if e[2] in ('task_exc', 'bg_exc'):
            if failing and any('injected' in str(x) for x in e[3:]):
                continue        # (the consumer's exception ends the polling loop: that is the scenario)
            V.append(Violation('C18', 'C18.two_loops', e[0], 'the source died: %r' % (e[3:],), node_op=typ))
            break

    # (a) at most one emission of the source in flight
    open_k = None
    if not V:
        for e in ev:
            if e[2] == 'sink_start':
                if open_k is not None:
                    V.append(Violation('C18', 'C18.two_loops', e[0],
                                       '%s: emission #%d (%r) started at t=%g while emission #%d was still being handled - two polling loops are active'
                                       % (typ, e[3], e[4], e[1], open_k), node_op=typ))
                    break
                open_k = e[3]
            elif e[2] == 'sink_end' and e[3] == open_k:
                open_k = None
    # (a') one loop sleeps a full poll interval between two cycles
    if not V and typ in ('periodic', 'filenames', 'custom'):
        last = None
        started_between = True
        for e in ev:
            if e[2] == 'start_call':
                started_between = True
            elif e[2] == 'cycle':
                if last is not None and not started_between and e[1] - last[1] < s['poll'] - 1e-9:
                    V.append(Violation('C18', 'C18.two_loops', e[0],
                                       '%s(poll %g): polling cycles began at t=%g and t=%g with no start() in between - two polling loops are active'
                                       % (typ, s['poll'], last[1], e[1]), node_op=typ))
                    break
                last = e
                started_between = False
    # (b) nothing new after stop
    if not V:
        stopped_at = None
        for e in ev:
            if e[2] == 'stop_call':
                if stopped_at is None:
                    stopped_at = e[0]
            elif e[2] == 'start_call':
                stopped_at = None
            elif e[2] == 'cycle' and e[3] != 'iter' and stopped_at is not None:
                # (obtaining the iterator is not taking an item: a run that finds itself stopped ends right there)
                V.append(Violation('C18', 'C18.emit_after_stop', e[0],
                                   '%s: a new polling cycle (%s %r) began at t=%g after stop() and before the next start()'
                                   % (typ, e[3], e[4], e[1]), node_op=typ))
                break
    # (b') ... and the next start() does begin one: after the last effective start() (one that follows a stop())
    #      a polling cycle begins - at once when no loop is alive (never started, ended, or died of a consumer's
    #      exception), or when the suspended old loop wakes up
    if not V and status == 'ok' and any(e[2] == 'end' for e in ev):
        last_start = None
        stopped = not s.get('start_true')
        for e in ev:
            if e[2] == 'start_call':
                if stopped:
                    last_start = e
                stopped = False
            elif e[2] == 'stop_call':
                stopped = True
                last_start = None
        # (a loop that carried on after that start() and then died of the consumer's exception owes nothing more;
        #  nor is a start() judged that falls into the very instant in which the loop is dying of one)
        if last_start is not None and not any(e[2] == 'cycle' and e[0] > last_start[0] for e in ev) \
                and not any(e[2] == 'sink_raised' and e[1] >= last_start[1] for e in ev):
            V.append(Violation('C18', 'C18.emit_after_stop', len(ev) - 1,
                               '%s: start() at t=%g (after a stop()) was the last call, yet no polling cycle began in the %g s that followed'
                               % (typ, last_start[1], ev[-1][1] - last_start[1]), node_op=typ))
    # content
    emitted = [e[4] for e in ev if e[2] == 'sink_start']
    ended = any(e[2] == 'end' for e in ev) and status == 'ok'
    if not V and typ == 'iterable' and s.get('one_shot', True) and not failing:
        items = s['items']
        if emitted != items[:len(emitted)]:
            V.append(Violation('C18', 'C18.iterable_items', len(ev) - 1,
                               'from_iterable over a one-shot iterator %r emitted %r' % (items, emitted), node_op='from_iterable'))
        elif ended and sc.get('final_started') and emitted != items:
            V.append(Violation('C18', 'C18.iterable_items', len(ev) - 1,
                               'from_iterable over %r: history ends started and drained, emitted only %r' % (items, emitted),
                               node_op='from_iterable'))
        else:
            # the next item is taken only after downstream finished the previous one
            busy = None
            for e in ev:
                if e[2] == 'sink_start':
                    busy = e[3]
                elif e[2] == 'sink_end' and e[3] == busy:
                    busy = None
                elif e[2] == 'cycle' and e[3] == 'next' and busy is not None:
                    V.append(Violation('C18', 'C18.iterable_items', e[0],
                                       'from_iterable took the next item at t=%g while emission #%d was still being handled' % (e[1], busy),
                                       node_op='from_iterable'))
                    break
    if not V and typ == 'iterable':
        # a new pass over the iterable begins only when the previous polling loop has ended: never while an
        # emission of this source is still being handled (the loop that issued it is alive and carries on)
        busy = None
        for e in ev:
            if e[2] == 'sink_start':
                busy = e[3]
            elif e[2] == 'sink_end' and e[3] == busy:
                busy = None
            elif e[2] == 'cycle' and e[3] == 'iter' and busy is not None:
                V.append(Violation('C18', 'C18.iterable_items', e[0],
                                   'from_iterable began a new pass over its iterable at t=%g while emission #%d was still being handled'
                                   % (e[1], busy), node_op='from_iterable'))
                break
    if not V and typ == 'textfile' and not failing:
        text = ''.join(o['data'] for _, o in sorted(enumerate(sc['ops']), key=lambda p: (p[1]['t'], p[0]))
                       if o['op'] == 'append' and not o.get('skip'))
        expected = [r + '\n' for r in text.split('\n')[:-1]]
        if emitted != expected[:len(emitted)]:
            V.append(Violation('C18', 'C18.two_loops', len(ev) - 1,
                               'from_textfile across restarts emitted %r, records are %r' % (emitted, expected), node_op='from_textfile'))
        elif ended and sc.get('final_started') and emitted != expected:
            V.append(Violation('C18', 'C18.emit_after_stop', len(ev) - 1,
                               'from_textfile: history ends started and drained, emitted %r of %r' % (emitted, expected),
                               node_op='from_textfile'))
    if not V and typ == 'filenames':
        if len(set(emitted)) != len(emitted):
            V.append(Violation('C18', 'C18.two_loops', len(ev) - 1, 'filenames emitted a path twice: %r' % emitted, node_op='filenames'))
    # (c) redundant calls have no effect (differential)
    if not V and any(o.get('redundant') for o in sc['ops']) and not sc.get('no_diff'):
        s2 = copy.deepcopy(sc)
        for o in s2['ops']:
            if o.get('redundant'):
                o['skip'] = True
        rec2, st2 = run_source(s2)
        out.extra_runs = 1
        # both runs drain for the same time after their last call; compare up to
        # the earlier of the two horizons
        horizon = min(ev[-1][1], rec2.events[-1][1])
        a = [x for x in _core(ev) if x[0] < horizon]
        b = [x for x in _core(rec2.events) if x[0] < horizon]
        if a != b:
            k = 0
            while k < min(len(a), len(b)) and a[k] == b[k]:
                k += 1
            V.append(Violation('C18', 'C18.not_idempotent', len(ev) - 1,
                               '%s: the history with redundant start-on-started / stop-on-stopped calls differs from the one without them at observable event #%d: %r vs %r'
                               % (typ, k, a[k] if k < len(a) else None, b[k] if k < len(b) else None), node_op=typ))
        out.probes['redundant_calls'] = 1
    # probes
    calls = [e[2] for e in ev if e[2] in ('start_call', 'stop_call')]
    if 'stop_call' in calls and 'start_call' in calls[calls.index('stop_call'):] and emitted:
        out.probes['restart_with_data'] = 1
    if failing:
        out.probes['polling_loop_died_of_a_consumer_exception'] = 1
        fs = [e[0] for e in ev if e[2] == 'sink_raised'][0]
        later = [e[2] for e in ev if e[0] > fs and e[2] in ('start_call', 'stop_call')]
        if 'stop_call' in later and 'start_call' in later[later.index('stop_call'):]:
            out.probes['restarted_after_the_loop_died'] = 1
    stop_seqs = [e[0] for e in ev if e[2] == 'stop_call']
    for sq in stop_seqs:
        # stop while an emission is being handled
        k = None
        for e in ev:
            if e[0] >= sq:
                break
            if e[2] == 'sink_start':
                k = e[3]
            elif e[2] == 'sink_end' and e[3] == k:
                k = None
        if k is not None:
            out.probes['stop_during_backpressured_emit'] = 1
    times = [(e[1], e[2]) for e in ev if e[2] in ('start_call', 'stop_call')]
    for i in range(len(times) - 1):
        if times[i][0] == times[i + 1][0] and times[i][1] != times[i + 1][1]:
            out.probes['same_instant_stop_start'] = 1
    if typ == 'iterable' and s.get('one_shot', True) and emitted:
        out.probes['one_shot_iterator'] = 1
    out.faults['stop_call'] = sum(1 for e in ev if e[2] == 'stop_call')
    out.faults['start_call'] = sum(1 for e in ev if e[2] == 'start_call')
    out.violations = V
    out.nontrivial = bool(out.probes)
    if want_trace:
        class R:
            pass
        out.res = R()
        out.res.events = ev
    return out


def shrink_candidates(sc):
    for c in _shrink_candidates(sc):
        yield mark_redundant(c)


def _shrink_candidates(sc):
    def clone():
        return copy.deepcopy(sc)
    ops = sc['ops']
    for i in range(len(ops) - 1, -1, -1):
        c = clone()
        del c['ops'][i]
        if any(o['op'] == 'start' for o in c['ops']):
            yield c
    for i, o in enumerate(ops):
        if o['t']:
            c = clone()
            c['ops'][i]['t'] = 0
            yield c
            c = clone()
            c['ops'][i]['t'] = o['t'] / 2 if o['t'] > 0.25 else 0
            yield c
    s = sc['source']
    if s.get('items') and len(s['items']) > 1:
        c = clone()
        c['source']['items'] = s['items'][:-1]
        yield c
    if sc['sink'].get('lat') and len(sc['sink']['lat']) > 1:
        c = clone()
        c['sink']['lat'] = [max(x or 0 for x in sc['sink']['lat'])]
        yield c
    if sc['sink'].get('kind') == 'tornado':
        c = clone()
        c['sink']['kind'] = 'native'
        yield c
    if sc.get('tiebreak') != 'fifo':
        c = clone()
        c['tiebreak'] = 'fifo'
        yield c
