"""Threaded mode: the pipeline is built with plain ``Stream()`` so streamz puts
its event loop into a background thread and ``emit`` blocks the caller
(``sync()``).  Emulation: the loop streamz creates is a SimLoop (event-loop
policy), its thread is never started (``streamz.core.threading`` shim) - the
scheduler below steps it one iteration at a time "as the loop thread".  Caller
code runs in real OS threads that are parked on semaphores; exactly one party
holds the baton at any time and the seeded scheduler decides who gets it next
(caller blocked in Event.wait, caller finished an operation, loop iteration
boundary).  A run is a pure function of the scenario.
"""
import asyncio
import random
import threading
import types

from . import loop as simloop
from .trace import Recorder
from .build import Ctx, build_graph
from .pipeline import RunResult, _do_emit, _finish, _reset_streamz, scenario_period, _progress, _backlog


class SimAbort(BaseException):
    pass


class Sched:
    def __init__(self, rec, seed):
        self.rec = rec
        self.rng = random.Random(seed)
        self.callers = []
        self.current = 'main'           # identity of whoever holds the baton
        self.main_sem = threading.Semaphore(0)
        self.aborted = False
        self.loops = []
        self.thread_starts = 0
        self.switches = 0

    def vt(self):
        lp = simloop.current()
        return lp._vt if lp is not None else 0.0


class Caller:
    def __init__(self, sched, cid, fn):
        self.sched = sched
        self.cid = cid
        self.fn = fn
        self.sem = threading.Semaphore(0)
        self.state = 'ready'            # ready | sleeping | blocked | done
        self.wake = 0.0
        self.event = None
        self.exc = None
        self.thread = threading.Thread(target=self._run, daemon=True)

    def _run(self):
        self.sem.acquire()
        # like a program's main thread: a current event loop exists but never runs
        self.idle_loop = simloop.SimLoop()
        asyncio.set_event_loop(self.idle_loop)
        try:
            if not self.sched.aborted:
                self.fn(self)
        except SimAbort:
            pass
        except BaseException as e:     # noqa
            self.exc = e
        self.state = 'done'
        self.sched.main_sem.release()

    def yield_baton(self):
        """give the baton back to the scheduler and wait for the next turn"""
        self.sched.main_sem.release()
        self.sem.acquire()
        if self.sched.aborted:
            raise SimAbort()

    def sleep(self, dt):
        if dt > 0:
            self.wake = self.sched.vt() + dt
            self.state = 'sleeping'
            self.yield_baton()


class ShimEvent:
    """threading.Event for streamz.core.sync(): wait() parks the calling caller
    thread and hands the baton to the scheduler."""
    sched = None

    def __init__(self):
        self._flag = False

    def is_set(self):
        return self._flag

    def set(self):
        self._flag = True

    def clear(self):
        self._flag = False

    def wait(self, timeout=None):
        s = ShimEvent.sched
        me = s.current
        if self._flag:
            return True
        if not isinstance(me, Caller):
            # the loop thread itself waits for something only the loop can do: a real deadlock
            raise simloop.LoopThreadBlocked('blocking wait on the event-loop thread (a blocking emit / sync() called from a loop callback)')
        me.state = 'blocked'
        me.event = self
        # a timed wait gives up after `timeout` (virtual) seconds - sync() polls its event like that
        me.wake = (s.vt() + timeout) if timeout is not None else None
        me.yield_baton()
        return self._flag


class ShimThread:
    sched = None

    def __init__(self, target=None, args=(), kwargs=None, **kw):
        self.target = target
        self.daemon = False

    def start(self):
        s = ShimThread.sched
        s.thread_starts += 1
        s.rec.rec('thread_start', s.thread_starts)
        owner = getattr(self.target, '__self__', None)    # IOLoop.start bound method
        if owner is not None and hasattr(owner, 'asyncio_loop'):
            s.loops.append(owner)


def run_threaded(sc, max_rounds=120):
    simloop.install_seams()
    import streamz.core
    res = RunResult()
    # the caller's world has no running loop; a clock loop carries virtual time until streamz creates its own
    clock = simloop.new_loop(sc.get('tiebreak', 'fifo'), sc.get('tiebreak_seed', 0))
    asyncio.set_event_loop(None)
    rec = Recorder(clock)
    sched = Sched(rec, sc.get('sched_seed', 0))
    ShimEvent.sched = sched
    ShimThread.sched = sched
    real_threading = streamz.core.threading
    real_ident = streamz.core.get_thread_identity
    streamz.core.threading = types.SimpleNamespace(Event=ShimEvent, Thread=ShimThread, local=threading.local,
                                                   get_ident=threading.get_ident)
    streamz.core.get_thread_identity = lambda: (1 if sched.current == 'loop' else
                                                (100 + sched.current.cid if isinstance(sched.current, Caller) else 0))
    foreign = set()        # ids of ready handles scheduled by a caller thread without waking the loop
    ctx = Ctx(sc, rec, clock, 'threaded')
    res.ctx = ctx
    period = scenario_period(sc)
    status = 'ok'
    try:
        build_graph(ctx, {})
        bg = sched.loops[0] if sched.loops else None          # tornado IOLoop wrapper of the background loop
        lp = bg.asyncio_loop if bg is not None else None
        if lp is not None:
            # one clock for everybody: the background loop is the time base from now on
            lp._vt = clock._vt
            lp.tiebreak, lp._tie_rng = clock.tiebreak, clock._tie_rng
            simloop._current[0] = lp
            rec.loop = lp
            ctx.loop = lp
            lp.step_cap = sc.get('step_cap', 400_000)
            lp.on_idle = lambda: spin_idle()
            # A callback handed to the loop with plain call_soon() from another thread (a future resolved there,
            # Condition.notify() ...) does not wake a loop that sleeps in its selector: it only runs once something
            # else wakes the loop - a timer, call_soon_threadsafe(), add_callback().
            plain_call_soon = lp.call_soon

            def call_soon(callback, *args, context=None):
                h = plain_call_soon(callback, *args, context=context)
                if isinstance(sched.current, Caller):
                    foreign.add(id(h))
                    rec.rec('unwoken_call_soon', sched.current.cid)
                return h
            lp.call_soon = call_soon
        time_base = lp if lp is not None else clock

        def spin_idle():
            """the loop busy-waits (map_async) and has no timer left: time passes until a
            caller does something; if none ever will, the loop spins for ever"""
            if any(c.state in ('ready', 'running') for c in sched.callers):
                return True
            wakes = [c.wake for c in sched.callers if c.state == 'sleeping']
            if wakes:
                lp._vt = max(lp._vt, min(wakes))
                return True
            return False

        def prelude(me):
            """the calling thread has used streamz asynchronously before (asyncio.run(main()) in a script) and
            an emit failed there: whatever that left behind in the thread must not change how the blocking
            emits below behave"""
            from streamz import Stream
            from .fns import InjectedFailure

            async def go():
                s = Stream(asynchronous=True)

                def bad(x):
                    raise InjectedFailure(-1, 0)
                k = s.map(bad).sink(lambda x: None)
                try:
                    await s.emit(1)
                except InjectedFailure:
                    rec.rec('prelude', 'raised')
                else:
                    rec.rec('prelude', 'no_exception')
                k.destroy()
                # ... and one emit was asked to run in place, emit(x, asynchronous=True), on a loop-less stream
                s2 = Stream()
                k2 = s2.map(lambda x: x).sink(lambda x: None)
                s2.emit(2, asynchronous=True)
                k2.destroy()
            me.idle_loop.run_until_complete(go())

        def producer_body(pid, p):
            def body(me):
                if sc.get('prelude_failed_emit'):
                    prelude(me)
                entry = p['entry']
                src = ctx.nodes[entry]
                me.sleep(p.get('start', 0) or 0)
                for k, item in enumerate(p['items']):
                    me.sleep(item.get('gap', 0) or 0)
                    r, failed = _do_emit(ctx, src, entry, pid, k, item, bg)
                    if not failed and 'flush' not in item and 'restart' not in item:
                        rec.rec('emit_done', pid, k, 'ok')
                    me.state = 'ready'
                    me.yield_baton()          # operation finished: a scheduling point
            return body

        for pid, p in enumerate(sc['producers']):
            c = Caller(sched, pid, producer_body(pid, p))
            sched.callers.append(c)
            c.thread.start()

        def loop_runnable():
            if lp is None:
                return False
            if lp._ready:
                if any(id(h) not in foreign for h in lp._ready):
                    return True
                # (only callbacks that a foreign thread slipped in without waking the loop: it sleeps on)
            while lp._scheduled and lp._scheduled[0]._cancelled:
                import heapq
                h = heapq.heappop(lp._scheduled)
                h._scheduled = False
            return bool(lp._scheduled) and lp._scheduled[0]._when <= lp._vt + 1e-12

        def next_timer():
            if lp is None or not lp._scheduled:
                return None
            live = [h._when for h in lp._scheduled if not h._cancelled]
            return min(live) if live else None

        def step_loop():
            sched.current = 'loop'
            lp._thread_id = threading.get_ident()
            asyncio.events._set_running_loop(lp)
            try:
                foreign.clear()
                lp._run_once()
            finally:
                asyncio.events._set_running_loop(None)
                lp._thread_id = None
                sched.current = 'main'

        def run_caller(c):
            sched.current = c
            c.state = 'running'
            c.sem.release()
            sched.main_sem.acquire()
            sched.current = 'main'

        idle_mark = len(rec.events)
        idle_since = time_base._vt
        rounds = 0
        settled = False
        while True:
            for c in sched.callers:
                if c.state == 'blocked' and c.event is not None and (
                        c.event._flag or (c.wake is not None and c.wake <= time_base._vt + 1e-12)):
                    c.state = 'ready'
                    c.event = None
                if c.state == 'sleeping' and c.wake <= time_base._vt + 1e-12:
                    c.state = 'ready'
            actors = [c for c in sched.callers if c.state == 'ready']
            if loop_runnable():
                actors.append('loop')
            if actors:
                a = actors[0] if len(actors) == 1 else actors[sched.rng.randrange(len(actors))]
                if len(actors) > 1:
                    sched.switches += 1
                    rec.rec('sched', 'loop' if a == 'loop' else 'caller%d' % a.cid, len(actors))
                if a == 'loop':
                    step_loop()
                else:
                    run_caller(a)
                continue
            # nothing runnable now: let time pass
            wakes = [c.wake for c in sched.callers if c.state == 'sleeping']
            nt = next_timer()
            busy = any(c.state != 'done' for c in sched.callers)
            cands = wakes + ([nt] if nt is not None else [])
            if cands:
                # timed waits of blocked callers run out as time passes; on their own (nothing else can ever
                # happen) they do not keep a deadlocked run alive
                cands = cands + [c.wake for c in sched.callers if c.state == 'blocked' and c.wake is not None]
            if not cands:
                if busy:
                    status = 'deadlock'
                    rec.rec('deadlock')
                else:
                    settled = True
                break
            t_next = min(cands)
            if not busy or all(c.state in ('done', 'blocked') for c in sched.callers):
                # drain phase: stop once a full period passes without progress
                if t_next - idle_since > period:
                    new = rec.events[idle_mark:]
                    if not any(_progress(ev) for ev in new) and not (rounds < 80 and _backlog(ctx, rec)):
                        settled = not any(c.state == 'blocked' for c in sched.callers) or True
                        break
                    rounds += 1
                    if rounds > max_rounds:
                        break
                    idle_mark = len(rec.events)
                    idle_since = time_base._vt
            time_base._vt = max(time_base._vt, t_next)
        if status == 'ok':
            blocked = [c for c in sched.callers if c.state == 'blocked']
            rec.rec('quiescent' if settled else 'restless', rounds, len(sched.callers) - len(blocked))
        for c in sched.callers:
            if c.exc is not None:
                raise c.exc
    except simloop.StepCap:
        status = 'step_cap'
    except simloop.Livelock:
        status = 'livelock'
        rec.rec('livelock')
    finally:
        sched.aborted = True
        for c in sched.callers:
            if c.state != 'done':
                c.sem.release()
        for c in sched.callers:
            c.thread.join(timeout=5)
            if c.thread.is_alive():
                # a caller thread that never comes back to a switch point (runaway work inside one emit): stop it
                # from the outside, or it keeps eating memory for as long as the worker process lives
                import ctypes
                ctypes.pythonapi.PyThreadState_SetAsyncExc(ctypes.c_ulong(c.thread.ident), ctypes.py_object(SimAbort))
                c.thread.join(timeout=5)
            il = getattr(c, 'idle_loop', None)
            if il is not None:
                il._closed = True
        res.status = status
        lp2 = simloop.current()
        _finish(res, rec, ctx, lp2)
        for l in list(simloop._SimPolicy.created) + [clock]:
            try:
                simloop.dispose_loop(l)
            except Exception:
                pass
        _reset_streamz()
        streamz.core.threading = real_threading
        streamz.core.get_thread_identity = real_ident
    return res
