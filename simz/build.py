"""Build a real streamz pipeline from a scenario graph and instrument it.

Observation does not change behaviour: every node instance gets ``update`` and
``_emit`` shadowed by logging wrappers that return exactly what the wrapped
method returned; user functions come from the catalogue in ``fns`` and take
latency / stall / failure from the scenario by (node, invocation index).
"""
import asyncio

from tornado import gen

from . import fns
from .fns import freeze, InjectedFailure


def mdids(md):
    if md is None:
        return ()
    if not isinstance(md, list):
        return (('!', type(md).__name__),)
    out = []
    for m in md:
        if isinstance(m, dict) and '_e' in m:
            out.append((m['_e'], m['_j']))
        elif isinstance(m, dict) and getattr(m.get('ref'), '_elem', None) is not None:
            out.append((m['ref']._elem, 0))
        else:
            out.append(('?', type(m).__name__))
    return tuple(out)


class Activity:
    __slots__ = ('node', 'call', 'in_idx', 'md', 'root', 'done', 'ok', 'start_seq', 'end_seq', 'kind', 'ran')


class _Request:
    """an awaitable that is neither a Future nor a coroutine"""
    def __init__(self, fut):
        self._fut = fut

    def __await__(self):
        return self._fut.__await__()


class Ctx:
    def __init__(self, scenario, rec, loop, mode):
        self.sc = scenario
        self.rec = rec
        self.loop = loop
        self.mode = mode
        self.nodes = {}            # id -> Stream
        self.ids = {}              # id(Stream) -> node id
        self.spec = {n['id']: n for n in scenario['graph']}
        self.calls = {}
        self.in_count = {}
        self.cur_in = {}           # node -> (idx, mdids) of the update on the stack
        self.activities = []
        self.awaitables = {}       # node -> list of (idx, awaitable or None)
        self.entry_pending = {}    # entry node -> FIFO of roots
        self.cont_roots = {}       # transparent-delayed node -> FIFO of roots
        self.refs = {}
        self.keep = []             # strong references (nodes are weakly linked)
        self.accepted = {}         # node -> {in idx: event index at which the awaitable was first seen done}
        faults = scenario.get('faults') or {}
        self.stalls = {(s['node'], s['call']): s['dur'] for s in faults.get('stalls', [])}
        self.fails = {(s['node'], s['call']): s.get('when', 'pre') for s in faults.get('fail', [])}
        # failures tied to an element (not to a call number): the same element fails in a local and in a Dask twin
        self.fail_values = {}
        for s in faults.get('fail_value', []):
            self.fail_values.setdefault(s['node'], set()).add(s['token'])

    # -- user function plumbing ------------------------------------------
    def _begin(self, nid, x, kind):
        call = self.calls.get(nid, 0)
        self.calls[nid] = call + 1
        a = Activity()
        a.node, a.call, a.kind = nid, call, kind
        cur = self.cur_in.get(nid)
        a.in_idx, a.md = cur if cur is not None else (None, ())
        a.root = self.rec.root
        a.done = False
        a.ok = None
        a.ran = False
        a.start_seq = self.rec.rec('fn_start', nid, call, kind, freeze(x), a.md, a.root)
        a.end_seq = None
        self.activities.append(a)
        dur = self.stalls.get((nid, call))
        if dur:
            self.rec.rec('stall', nid, call, dur)
            if self.loop is not None:
                self.loop.advance(dur)
        return a

    def _end(self, a, ok):
        a.done = True
        a.ok = ok
        a.end_seq = self.rec.rec('fn_end', a.node, a.call, 'ok' if ok else 'exc')

    def _lat(self, nid, call):
        lat = self.spec[nid].get('lat') or [None]
        return lat[call % len(lat)]

    def sync_fn(self, nid, pure, kind='fn'):
        """pure: callable(*args, **kw) -> value"""
        def f(*args, **kwargs):
            a = self._begin(nid, args[0] if len(args) == 1 else args, kind)
            if (nid, a.call) in self.fails or (
                    nid in self.fail_values and self.fail_values[nid] & set(fns.tokens(args))):
                self._end(a, False)
                raise InjectedFailure(nid, a.call)
            r = pure(*args, **kwargs)
            self._end(a, True)
            return r
        return f

    def async_fn(self, nid, pure, kind, style):
        """style: native | tornado | future.  The activity starts at the call
        (when the awaitable is created) and ends when the awaitable finishes."""
        ctx = self

        async def native(a, x):
            a.ran = True          # (a coroutine object that nobody awaits never gets here)
            lat = ctx._lat(nid, a.call)
            when = ctx.fails.get((nid, a.call))
            if when == 'pre':
                ctx._end(a, False)
                raise InjectedFailure(nid, a.call)
            if lat is not None:
                await asyncio.sleep(lat)
            if when == 'post':
                ctx._end(a, False)
                raise InjectedFailure(nid, a.call)
            r = pure(x)
            ctx._end(a, True)
            return r

        @gen.coroutine
        def tornado_co(a, x):
            lat = ctx._lat(nid, a.call)
            when = ctx.fails.get((nid, a.call))
            if when == 'pre':
                ctx._end(a, False)
                raise InjectedFailure(nid, a.call)
            if lat is not None:
                yield gen.sleep(lat)
            if when == 'post':
                ctx._end(a, False)
                raise InjectedFailure(nid, a.call)
            r = pure(x)
            ctx._end(a, True)
            raise gen.Return(r)

        def future_style(a, x):
            lat = ctx._lat(nid, a.call)
            when = ctx.fails.get((nid, a.call))
            lp = asyncio.get_event_loop() if ctx.loop is None else ctx.loop
            fut = lp.create_future()

            def fire():
                if fut.done():
                    return
                if when:
                    ctx._end(a, False)
                    fut.set_exception(InjectedFailure(nid, a.call))
                else:
                    r = pure(x)
                    ctx._end(a, True)
                    fut.set_result(r)
            if lat is None:
                fire()
            else:
                lp.call_later(lat, fire)
            return fut

        def awaitable_style(a, x):
            return _Request(future_style(a, x))

        impl = {'native': native, 'tornado': tornado_co, 'future': future_style, 'awaitable': awaitable_style}[style]

        def f(x):
            a = ctx._begin(nid, x, kind)
            if ctx.fails.get((nid, a.call)) == 'call':
                # the function raises when it is called (argument validation ...), before there is anything to await
                ctx._end(a, False)
                raise InjectedFailure(nid, a.call)
            return impl(a, x)
        return f

    # -- node instrumentation ---------------------------------------------
    def instrument(self, nid, node, entry=False, cont=False):
        self.nodes[nid] = node
        self.ids[id(node)] = nid
        self.keep.append(node)
        self.in_count[nid] = 0
        self.awaitables[nid] = []
        rec = self.rec
        ctx = self
        orig_update = node.update
        orig_emit = node._emit
        if entry:
            self.entry_pending[nid] = []
        if cont:
            self.cont_roots[nid] = []
        # acceptance times: for the bounded nodes themselves and for the consumers of nodes that hand on one
        # element at a time (C03.handoff)
        track = self.spec[nid]['op'] in ('buffer', 'map_async', 'zip') or any(
            self.spec[u]['op'] in SERIAL_OPS for u in self.spec[nid].get('up', []) if u in self.spec)

        def update(x, who=None, metadata=None):
            idx = ctx.in_count[nid]
            ctx.in_count[nid] = idx + 1
            ids = mdids(metadata)
            parent = ctx.ids.get(id(who), -1)
            rec.rec('in', nid, parent, freeze(x), ids, rec.root, rec.depth)
            if cont:
                ctx.cont_roots[nid].append(rec.root)
            saved = ctx.cur_in.get(nid)
            ctx.cur_in[nid] = (idx, ids)
            rec.depth += 1
            try:
                r = orig_update(x, who=who, metadata=metadata)
            except BaseException as e:
                rec.depth -= 1
                ctx.cur_in[nid] = saved
                rec.rec('in_exc', nid, idx, type(e).__name__)
                raise
            rec.depth -= 1
            ctx.cur_in[nid] = saved
            aw = r if hasattr(r, 'done') else None
            ctx.awaitables[nid].append(aw)
            seq = rec.rec('in_ret', nid, idx, 'aw' if aw is not None else ('list' if isinstance(r, list) else type(r).__name__))
            if track:
                acc = ctx.accepted.setdefault(nid, {})
                if aw is None or aw.done():
                    acc[idx] = seq
                else:
                    rec.watch.append((nid, idx, aw, acc))
            return r

        def _emit(x, metadata=None):
            saved_root = rec.root
            if entry and rec.root is None and ctx.entry_pending[nid]:
                # (a nested emit - a consumer forwarding into this entry point - stays in the extent of the
                # emit it is nested in; only an emit issued by a producer opens a new extent)
                rec.root = ctx.entry_pending[nid].pop(0)
            elif cont and ctx.cont_roots[nid]:
                rec.root = ctx.cont_roots[nid].pop(0)
            rec.rec('out', nid, freeze(x), mdids(metadata), rec.root, rec.depth)
            rec.depth += 1
            try:
                return orig_emit(x, metadata=metadata)
            finally:
                rec.depth -= 1
                rec.rec('out_ret', nid)
                rec.root = saved_root

        node.update = update
        node._emit = _emit
        return node


def make_traced_ref(ctx, elem, loop_obj):
    from streamz.core import RefCounter

    rec = ctx.rec

    class TracedRef(RefCounter):
        def retain(self, n=1):
            RefCounter.retain(self, n)
            rec.rec('ref', elem, 'retain', n, self.count)

        def release(self, n=1):
            before_sched = self._sched
            RefCounter.release(self, n)
            rec.rec('ref', elem, 'release', n, self.count)
            if self._sched > before_sched:
                rec.rec('cb_sched', elem, self.count)

    def cb():
        rec.rec('cb_run', elem)

    class _LoopProxy:
        """Counts the scheduling of the completion callback; forwards to the
        real loop (or, loop-less, runs it on the spot)."""
        def __init__(self, ref):
            self.ref = ref

        def add_callback(self, f, *a, **k):
            self.ref._sched += 1
            if loop_obj is not None:
                loop_obj.add_callback(f, *a, **k)
            else:
                f(*a, **k)

    r = TracedRef.__new__(TracedRef)
    r._sched = 0
    r.loop = _LoopProxy(r)
    r.count = 0
    r.cb = cb
    ctx.refs[elem] = r
    rec.rec('ref', elem, 'new', 0, 0)
    return r


# ---------------------------------------------------------------------------

LOOP_NODES = {'buffer', 'delay', 'rate_limit', 'map_async', 'timed_window',
              'timed_window_unique', 'latest'}


SERIAL_OPS = ('map_async', 'buffer', 'delay', 'latest', 'timed_window')


def needs_loop(graph):
    for n in graph:
        if n['op'] in LOOP_NODES:
            return True
        if n['op'] == 'partition':      # ensure_io_loop=True even without a timeout
            return True
        if n['op'] == 'sink' and n.get('kind', 'sync') not in ('sync', 'emit_into'):
            return True
    return False


def build_graph(ctx, source_kwargs, late=None):
    """Instantiate the scenario graph with the public fluent API.  Nodes marked 'attach_at' (a consumer
    subscribing while the pipeline is already running) are left out; the driver adds each of them later by
    calling again with late=<node id>."""
    import streamz
    from streamz import Stream
    sc = ctx.sc
    N = ctx.built if late is not None else {}
    if any('attach_at' in n for n in sc['graph']):
        ctx.built = N          # (kept only when needed: a strong reference to every node defeats C15's gc checks)
    for n in sc['graph']:
        nid, op = n['id'], n['op']
        if (late is None) == ('attach_at' in n) or (late is not None and nid != late):
            continue
        ups = [N[u] for u in n.get('up', [])]
        kw = {}
        entry = cont = False
        if op == 'source':
            # 'unbound': a plain Stream() that gets loop and mode from the pipeline it is joined into
            s = Stream() if n.get('unbound') else Stream(**source_kwargs)
            entry = True
        elif op == 'external':        # a stream built by the family harness (Kafka source, Dask segment)
            s = ctx.external[nid]
        elif op == 'scatter':
            s = ups[0].scatter()
            cont = True
        elif op == 'gather':
            s = ups[0].gather()
            cont = True
        elif op == 'map':
            spec = tuple(n['fn'])
            margs = tuple(n.get('args', ()))
            mkw = dict(n.get('kwargs', {}))
            if n.get('shared_fn'):
                # one function object used by several nodes (source.map(add, 1) next to source.map(add, 100))
                s = ups[0].map(fns.shared_map, *margs, **mkw)
            else:
                s = ups[0].map(ctx.sync_fn(nid, lambda x, *a, _s=spec, **k: fns.mapf(_s, x, *a, **k)), *margs, **mkw)
        elif op == 'starmap':
            spec = tuple(n['fn'])
            args = tuple(n.get('args', ()))
            kwargs = dict(n.get('kwargs', {}))
            s = ups[0].starmap(ctx.sync_fn(nid, lambda *a, _s=spec, **k: fns.starf(_s, *a, **k)), *args, **kwargs)
        elif op == 'filter':
            spec = tuple(n['fn'])
            s = ups[0].filter(ctx.sync_fn(nid, lambda x, _s=spec: fns.pred(_s, x)))
        elif op == 'accumulate':
            spec = tuple(n['fn'])
            akw = {}
            if 'start' in n:
                akw['start'] = freeze_in(n['start'])
            if n.get('returns_state'):
                akw['returns_state'] = True
            if n.get('with_state'):
                akw['with_state'] = True
            s = ups[0].accumulate(ctx.sync_fn(nid, lambda st, x, _s=spec: fns.fold(_s, st, x)), **akw)
        elif op == 'slice':
            s = ups[0].slice(n.get('start'), n.get('end'), n.get('step'))
        elif op == 'partition':
            pkw = {}
            if n.get('timeout') is not None:
                pkw['timeout'] = n['timeout']
            if n.get('key') is not None:
                pkw['key'] = key_of(ctx, nid, n['key'])
            s = ups[0].partition(n['n'], **pkw)
        elif op == 'partition_unique':
            pkw = {'keep': n.get('keep', 'first')}
            if n.get('key') is not None:
                pkw['key'] = key_of(ctx, nid, n['key'])
            s = ups[0].partition_unique(n['n'], **pkw)
        elif op == 'sliding_window':
            s = ups[0].sliding_window(n['n'], return_partial=n.get('partial', True))
        elif op == 'unique':
            ukw = {}
            if n.get('maxsize') is not None:
                ukw['maxsize'] = n['maxsize']
            if n.get('key') is not None:
                ukw['key'] = key_of(ctx, nid, n['key'])
            if n.get('hashable') is False:
                ukw['hashable'] = False
            s = ups[0].unique(**ukw)
        elif op == 'flatten':
            s = ups[0].flatten()
        elif op == 'pluck':
            s = ups[0].pluck(n['pick'])
        elif op == 'collect':
            if n.get('cache_maxlen'):
                # a caller-supplied (empty) bounded cache: the last k elements since the previous flush
                from collections import deque as _dq
                if n.get('md_cache_maxlen'):
                    s = ups[0].collect(cache=_dq(maxlen=n['cache_maxlen']), metadata_cache=_dq(maxlen=n['md_cache_maxlen']))
                else:
                    s = ups[0].collect(cache=_dq(maxlen=n['cache_maxlen']))
            else:
                s = ups[0].collect()
        elif op == 'union':
            s = ups[0].union(*ups[1:])
        elif op == 'zip':
            args = zip_args(n, N)
            zkw = {}
            if n.get('maxsize') is not None:
                zkw['maxsize'] = n['maxsize']
            s = args[0].zip(*args[1:], **zkw) if isinstance(args[0], Stream) else streamz.zip(*args, **zkw)
        elif op == 'combine_latest':
            ckw = {}
            if n.get('emit_on') is not None:
                eo = n['emit_on']
                ckw['emit_on'] = [e if n.get('emit_on_index') else N[n['up'][e]] for e in eo]
                if len(ckw['emit_on']) == 1 and n.get('emit_on_scalar'):
                    ckw['emit_on'] = ckw['emit_on'][0]
            s = ups[0].combine_latest(*ups[1:], **ckw)
        elif op == 'zip_latest':
            s = ups[0].zip_latest(*ups[1:])
        elif op == 'buffer':
            s = ups[0].buffer(n['n'])
        elif op == 'delay':
            s = ups[0].delay(interval_arg(n))
        elif op == 'rate_limit':
            s = ups[0].rate_limit(interval_arg(n))
            cont = True
        elif op == 'map_async':
            spec = tuple(n['fn'])
            s = ups[0].map_async(ctx.async_fn(nid, lambda x, _s=spec: fns.f1(_s, x), 'job', n.get('kind', 'native')),
                                 parallelism=n.get('parallelism', 1))
        elif op == 'timed_window':
            s = ups[0].timed_window(interval_arg(n))
        elif op == 'timed_window_unique':
            tkw = {'keep': n.get('keep', 'first')}
            if n.get('key') is not None:
                tkw['key'] = key_of(ctx, nid, n['key'])
            s = ups[0].timed_window_unique(interval_arg(n), **tkw)
        elif op == 'latest':
            s = ups[0].latest()
        elif op == 'sink':
            kind = n.get('kind', 'sync')
            if kind == 'emit_into':
                # the idiom source.sink(other.emit): a consumer that pushes into another entry point
                target = N[n['target']]
                if n.get('back'):
                    # feedback: one follow-up element per original element, into an entry point above this consumer
                    def back(x, _t=target):
                        if isinstance(x, int) and x < 5 * fns.TOKEN_BASE:
                            return _t.emit(5 * fns.TOKEN_BASE + (x - fns.TOKEN_BASE))
                    f = ctx.sync_fn(nid, back, kind='sink')
                else:
                    f = ctx.sync_fn(nid, lambda x, _t=target: _t.emit(x), kind='sink')
            elif kind == 'sync' and n.get('attach_on_first'):
                # lazy wiring: on its first element this consumer attaches one more branch to its own upstream,
                # i.e. while that upstream is in the middle of handing the element to its branches
                def lazy(x, _u=ups[0], _st=[False]):
                    if not _st[0]:
                        _st[0] = True
                        ctx.keep.append(_u.sink(lambda y: None))
                        rec.rec('attached', nid)
                rec = ctx.rec
                f = ctx.sync_fn(nid, lazy, kind='sink')
            elif kind == 'sync':
                f = ctx.sync_fn(nid, lambda x: None, kind='sink')
            else:
                f = ctx.async_fn(nid, lambda x: None, 'sink', kind)
            s = ups[0].sink(f)
        else:
            raise ValueError('unknown op %r' % op)
        N[nid] = s
        ctx.instrument(nid, s, entry=entry, cont=cont)
    if late is not None:
        ctx.rec.rec('attached', late)
        return N
    # feedback edges (guarded by unique in the generated templates): connected after construction
    for fb in sc.get('feedback', []):
        N[fb['from']].connect(N[fb['to']])
    for u, v in sc.get('reconnect', []):
        N[u].connect(N[v])
    if sc.get('start_leaves') and not sc.get('feedback') and not any(n['op'] == 'external' for n in sc['graph']):
        # the usual idiom  p = source...sink(f); p.start() : start() travels upstream through every node;
        # for nodes that are not sources it must change nothing
        has_child = set(u for n in sc['graph'] for u in n.get('up', []))
        for n in sc['graph']:
            if n['id'] not in has_child and n['id'] in N:
                try:
                    N[n['id']].start()
                except Exception as e:     # noqa  (start() on a pipeline that has no source must change nothing - and not raise)
                    from .pipeline import describe_exc
                    ctx.rec.rec('restart_exc', n['id'], describe_exc(e))
    return N


def interval_arg(n):
    """the documented alternative spelling of an interval: a pandas time string ('250ms')"""
    if n.get('interval_str'):
        return '%dms' % round(n['interval'] * 1000)
    if n.get('interval_np') and float(n['interval']).is_integer():
        import numpy as np
        return np.int64(n['interval'])         # (a number taken from an array or a data-frame cell)
    return n['interval']


def freeze_in(v):
    """JSON lists in scenario parameters stand for tuples."""
    if isinstance(v, list):
        return tuple(freeze_in(i) for i in v)
    return v


def key_of(ctx, nid, spec):
    spec = tuple(spec)
    if spec[0] == 'index':         # non-callable key: x[key]
        return spec[1]
    # a key function is user code like any other: logged, and C16's fault enumeration makes it raise
    return ctx.sync_fn(nid, lambda x, _s=spec: fns.f1(_s, x), kind='key')


def zip_args(n, N):
    """zip's positional arguments: upstream streams with literals in position."""
    lits = {int(k): freeze_in(v) for k, v in (n.get('literals') or {}).items()}
    total = len(n['up']) + len(lits)
    ups = list(n['up'])
    out = []
    for pos in range(total):
        if pos in lits:
            out.append(lits[pos])
        else:
            out.append(N[ups.pop(0)])
    return out
