"""C20 - a Dask-backed segment (scatter ... gather) is observationally
equivalent to the local one.  The cluster is a stub (FakeClient): tasks finish
at scenario-chosen virtual times respecting data dependencies."""
import copy

from . import gen
from .pipeline import run_scenario
from .oracles import Violation, Analysis
from .fam_pipeline import Outcome
from .fns import TOKEN_BASE

LEVEL = {'C20': 'exploration'}
CHUNK = {'C20': 30}
COMPONENTS = {
    'real': ['streamz/dask.py (DaskStream map, accumulate, starmap, scatter, gather and the mixed-in core nodes)', 'streamz.core', 'streamz.sinks',
             'dask.utils.apply', 'tornado + asyncio scheduling'],
    'stub': ['distributed.Client / cluster -> FakeClient (submit, scatter, gather, loop); real distributed uses threads, sockets and the wall clock and cannot be made deterministic here',
             'selector/clock -> SimLoop'],
}
ASSUMPTIONS = {'C20': ['one producer; it awaits its emits whenever the segment contains a buffering node (otherwise either)',
                       'tasks are pure; the fake cluster resolves futures nested in tuples/lists like distributed does']}
RULE = {'C20': 'segments over map, starmap, accumulate (with/without start, returns_state), zip, buffer, partition, sliding_window, '
               'union, built twice from one spec (locally, and as scatter ... gather on DaskStream over the fake cluster) with per-task, '
               'scatter and gather latencies, i.e. arbitrary completion orders respecting dependencies. Non-trivial = at least two results '
               'reached the sink of the Dask twin; distinct = distinct schedule signatures of the Dask twin'}

SEG_OPS = ['map', 'map', 'starmap', 'accumulate', 'zip', 'buffer', 'partition', 'sliding_window', 'union']


def generate(prop, rng, seed, index, tier):
    big = tier == 'thorough'
    g = gen.G(rng, 'C01', 'quick')
    nsrc = 1      # one awaiting producer: with independent producers even the local order is a matter of schedule
    scat = []
    for _ in range(nsrc):
        s = g.add({'op': 'source'}, gen.INT)
        if rng.random() < 0.15:
            # the scattered elements are collections that are neither list nor dict (ranges, possibly empty):
            # one element is one future whatever Client.scatter would do with such a collection
            s = g.add({'op': 'map', 'up': [s], 'fn': ['torange', rng.choice([0, 1, 2])], 'pre': True}, ('any', True))
            scat.append(g.add({'op': 'scatter', 'up': [s]}, ('any', True)))
            continue
        scat.append(g.add({'op': 'scatter', 'up': [s]}, gen.INT))
    # only nodes downstream of a scatter are candidates
    real_candidates = g.candidates

    def cands(pred=lambda t: True):
        return [i for i in real_candidates(pred) if g.graph[i]['op'] not in ('source',) and not g.graph[i].get('pre')]
    g.candidates = cands
    if rng.random() < 0.25 and not any(n.get('pre') for n in g.graph):
        # the same function object applied by two nodes to the same scattered element with different extras,
        # both results alive at once (joined by a zip)
        k1, k2 = rng.sample([1, 2, 3, 100], 2)
        t1 = ('fix', (('fix', (gen.INT, gen.INT)), gen.INT))
        a = g.add({'op': 'map', 'up': [scat[0]], 'fn': ['tag', 0], 'shared_fn': True, 'args': [k1]}, t1)
        b = g.add({'op': 'map', 'up': [scat[0]], 'fn': ['tag', 0], 'shared_fn': True, 'args': [k2]}, t1)
        g.add({'op': 'zip', 'up': [a, b]}, ('fix', (t1, t1)))
    target = rng.randrange(1, 7 if big else 5)
    tries = 0
    while len(g.graph) - 2 * nsrc < target and tries < 40:
        tries += 1
        op = rng.choice(SEG_OPS)
        before = len(g.graph)
        g.try_add(op)
        if len(g.graph) > before:
            n = g.graph[-1]

            def anc_has(nid, what):
                m = g.graph[nid]
                return m['op'] == what or any(anc_has(u, what) for u in m.get('up', []))
            if n['op'] == 'union' and any(anc_has(u, 'buffer') for u in n['up']):
                # a merge below a buffering node is schedule dependent even locally: not comparable
                g.graph.pop()
                continue
            # restrictions of the Dask API: accumulate/starmap/map take no stream kwargs
            if n['op'] == 'map' and n['fn'][0] in ('fanout', 'totuple', 'falsy'):
                n['fn'] = ['tag', 3]
                g.types[n['id']] = ('fix', (gen.INT, g.types[n['up'][0]]))
            if n['op'] == 'starmap':
                n.pop('args', None)          # dask starmap has no positional extras
                if n.get('kwargs') and rng.random() < 0.4:
                    # a keyword argument of the user's function that happens to be named like an option of Client.submit
                    n['kwargs'] = {rng.choice(['priority', 'retries']): list(n['kwargs'].values())[0]}
                t = g.types[n['up'][0]]
                extra = (gen.INT,) if n.get('kwargs') else ()
                g.types[n['id']] = ('fix', (gen.INT,) + tuple(t[1]) + extra)
            if n['op'] == 'partition':
                n.pop('key', None)
            if n['op'] == 'zip':
                n.pop('literals', None)
                g.types[n['id']] = ('fix', tuple(g.types[u] for u in n['up']))
    leaves = [n['id'] for n in g.graph if n['op'] not in ('source',) and
              n['id'] not in set(u for m in g.graph for u in m.get('up', []))]
    kinds = ['sync', 'native', 'tornado', 'future']
    for lf in leaves:
        ga = g.add({'op': 'gather', 'up': [lf]}, None)
        if rng.random() < 0.3:
            # the pipeline goes on locally after the gather: what follows sees values, not futures
            ga = g.add({'op': 'map', 'up': [ga], 'fn': ['tag', 7]}, None)
        sk = {'op': 'sink', 'up': [ga], 'kind': rng.choice(kinds)}
        if sk['kind'] != 'sync':
            sk['lat'] = [rng.choice([None, 0, 0.25, 1]) for _ in range(rng.randrange(1, 3))]
        g.add(sk, None)
    producers = []
    for pid, n in enumerate([n for n in g.graph if n['op'] == 'source']):
        items = []
        for k in range(rng.randrange(2, 10 if big else 7)):
            it = {'gap': rng.choice([0, 0, 0.25, 0.5, 1]), 'v': TOKEN_BASE + pid * 1000 + k}
            if rng.random() < 0.5:
                it['md'] = 1
            items.append(it)
        # without a buffering node the local twin is synchronous, so its order is the emission order even
        # when the producer does not wait for its emits: then several elements are in flight on the cluster
        aw = True if any(m['op'] == 'buffer' for m in g.graph) else rng.random() < 0.55
        producers.append({'entry': n['id'], 'await': aw, 'start': rng.choice([0, 0.25]), 'items': items})
    lat = lambda: [rng.choice([0, 0, 0.25, 0.5, 1, 2, 3]) for _ in range(rng.randrange(1, 5))]   # noqa
    faults = {'stalls': [], 'fail': []}
    kids = {}
    for n in g.graph:
        for u in n.get('up', []):
            kids[u] = kids.get(u, 0) + 1
    maps = [n for n in g.graph if n['op'] == 'map' and not n.get('shared_fn')]
    linear = all(v <= 1 for v in kids.values()) and not any(n['op'] in ('zip', 'union', 'buffer') for n in g.graph)
    def only_maps_below(nid):
        # (a failed task poisons whatever is computed from its future - a later accumulate state, a window that
        # contains it: below the failing node there may only be stateless maps before the gather)
        cur = nid
        while True:
            nxt = [n for n in g.graph if cur in n.get('up', [])]
            if not nxt:
                return True
            if nxt[0]['op'] == 'gather':
                return True
            if nxt[0]['op'] != 'map':
                return False
            cur = nxt[0]['id']
    maps = [n for n in maps if only_maps_below(n['id'])]
    if linear and maps and rng.random() < 0.3:
        # a task that fails for one element (the same element locally): the failure reaches the emitter in both
        # worlds and the elements behind it are delivered in both
        its = producers[0]['items']
        if len(its) >= 2:
            faults['fail_value'] = [{'node': rng.choice(maps)['id'], 'token': its[rng.randrange(0, len(its) - 1)]['v']}]
            producers[0]['await'] = True
    return {'format': 1, 'family': 'dask', 'property': 'C20', 'seed': seed, 'index': index, 'mode': 'async',
            'tiebreak': rng.choice(['fifo', 'lifo', 'seeded']), 'tiebreak_seed': rng.randrange(1000),
            'graph': g.graph, 'producers': producers, 'faults': faults,
            'dask': {'task_lat': lat(), 'scatter_lat': lat(), 'gather_lat': lat()}}


def local_twin(sc):
    """the same segment without scatter / gather"""
    s2 = copy.deepcopy(sc)
    s2.pop('dask', None)
    alias = {}
    graph = []
    for n in s2['graph']:
        if n['op'] in ('scatter', 'gather'):
            u = n['up'][0]
            alias[n['id']] = alias.get(u, u)
            continue
        n['up'] = [alias.get(u, u) for u in n.get('up', [])]
        if not n['up']:
            n.pop('up')
        graph.append(n)
    s2['graph'] = graph
    return s2


def evaluate(prop, sc, want_trace=False):
    out = Outcome()
    loc = local_twin(sc)
    r_loc = run_scenario(loc)
    r_dsk = run_scenario(sc)
    out.extra_runs = 1
    out.status = r_dsk.status
    out.sim_time = r_dsk.sim_time
    out.events = len(r_dsk.events)
    out.signature = r_dsk.signature
    a_loc = Analysis(loc, r_loc)
    a_dsk = Analysis(sc, r_dsk)
    V = []
    sinks = [n['id'] for n in sc['graph'] if n['op'] == 'sink']
    total = 0
    for e in r_dsk.events:
        if e[2] in ('bg_exc', 'task_exc') and not any('njected' in str(x) for x in e[3:]):
            V.append(Violation('C20', 'C20.sequence', e[0], 'the Dask twin raised inside the pipeline: %r' % (e[3:],), node_op='gather'))
            break
    for sid in sinks:
        if V:
            break
        gl_all = [a.value for a in a_loc.acts if a.node == sid]
        gd_all = [a.value for a in a_dsk.acts if a.node == sid]
        total += len(gd_all)
        both_done = a_loc.drained and a_dsk.drained
        # independent producers are not ordered with respect to each other (locally either):
        # the sequences are compared per producer
        pids = range(len(sc['producers'])) if len(sc['producers']) > 1 else [None]
        from .fns import tokens
        for pid in pids:
            if pid is None:
                gl, gd = gl_all, gd_all
            else:
                has = lambda v: any((t - TOKEN_BASE) // 1000 == pid for t in tokens(v))   # noqa
                gl, gd = [v for v in gl_all if has(v)], [v for v in gd_all if has(v)]
            cmp_len = min(len(gl), len(gd)) if not both_done else max(len(gl), len(gd))
            if (sc.get('faults') or {}).get('fail_value') and a_loc.drained and a_dsk.quiescent and not a_dsk.drained \
                    and len(gd) < len(gl) and gl[:len(gd)] == gd:
                V.append(Violation('C20', 'C20.sequence', a_dsk.end_seq - 1,
                                   'sink %d: the Dask twin delivered %d of the %d results the local twin delivered and nothing is in flight '
                                   'any more (first missing %r)' % (sid, len(gd), len(gl), gl[len(gd)]), node_op='gather'))
                break
            if gl[:cmp_len] != gd[:cmp_len]:
                k = 0
                while k < min(len(gl), len(gd)) and gl[k] == gd[k]:
                    k += 1
                V.append(Violation('C20', 'C20.sequence', a_dsk.end_seq - 1,
                                   'sink %d%s: result #%d is %r on Dask and %r locally (local %r ... Dask %r)'
                                   % (sid, '' if pid is None else ' (elements of producer %d)' % pid, k,
                                      gd[k] if k < len(gd) else None, gl[k] if k < len(gl) else None, gl[:k + 2], gd[:k + 2]),
                                   node_op='gather'))
                break
    if not V and a_loc.drained and a_dsk.drained:
        # (with a failing task the two worlds differ in what stays referenced: locally the exception unwinds the
        # emitting calls and their releases are skipped, on the cluster it surfaces only at the gather)
        diff = {k: (r_loc.final_counts.get(k), r_dsk.final_counts.get(k)) for k in set(r_loc.final_counts) | set(r_dsk.final_counts)
                if r_loc.final_counts.get(k) != r_dsk.final_counts.get(k)}
        if diff and not (sc.get('faults') or {}).get('fail_value'):
            V.append(Violation('C20', 'C20.refcount', a_dsk.end_seq - 1,
                               'reference counts at the end differ (element: local, Dask): %r' % (sorted(diff.items())[:4],), node_op='gather'))
    if not V:
        for v in a_dsk.refcount_scan(want_c04=True, want_c05=False):
            V.append(Violation('C20', 'C20.early_callback', v.seq, 'Dask twin: ' + v.detail, **v.info))
            break
    out.violations = V
    if total >= 2:
        out.probes['results>=2'] = 1
    done = [e for e in r_dsk.events if e[2] == 'task_done']
    sub = {e[3]: i for i, e in enumerate(ev for ev in r_dsk.events if ev[2] == 'task_submit')}
    order = [sub.get(e[3], 0) for e in done]
    if any(order[i] > order[i + 1] for i in range(len(order) - 1)):
        out.probes['tasks_completed_out_of_submission_order'] = 1
    if any(n['op'] == 'union' for n in sc['graph']):
        out.probes['union_in_segment'] = 1
    if any(n['op'] == 'accumulate' for n in sc['graph']):
        out.probes['accumulate_in_segment'] = 1
    if (sc.get('faults') or {}).get('fail_value'):
        out.probes['a_task_failed'] = 1
        out.faults['failing_task'] = 1
    out.nontrivial = total >= 2
    if want_trace:
        out.res = r_dsk
    return out


def shrink_candidates(sc):
    from .fam_pipeline import shrink_candidates as base
    for c in base(sc):
        yield c
    d = sc.get('dask') or {}
    for key in ('task_lat', 'scatter_lat', 'gather_lat'):
        if d.get(key) and d[key] != [0]:
            c = copy.deepcopy(sc)
            c['dask'][key] = [0]
            yield c
            if len(d[key]) > 1:
                c = copy.deepcopy(sc)
                c['dask'][key] = d[key][:-1]
                yield c
