#!/venv/bin/python
"""Entry point of every check:  check.py <property id> --tier quick|thorough
                                check.py --replay <replay file> [--trace]

Imports streamz from /repo's current working tree (or from STREAMZ_SRC, which
only the mutation self-test uses, on scratch copies outside /repo and /verif).
"""
import os
import sys

if os.environ.get('PYTHONHASHSEED') is None:
    # one more source of nondeterminism pinned: re-exec with a fixed hash seed
    os.environ['PYTHONHASHSEED'] = '0'
    os.execv(sys.executable, [sys.executable] + sys.argv)

HERE = os.path.dirname(os.path.abspath(__file__))
src = os.environ.get('STREAMZ_SRC', '/repo')
sys.path.insert(0, src)
sys.path.insert(0, HERE)

from simz.runner import main   # noqa

if __name__ == '__main__':
    try:
        rc = main(sys.argv[1:])
    except SystemExit:
        raise
    except BaseException:          # noqa - an accident of the machinery is never reported as a violation (exit 1)
        import traceback
        traceback.print_exc()
        print('HARNESS-ERROR: the check itself failed (see the traceback above)')
        rc = 2
    sys.exit(rc)
